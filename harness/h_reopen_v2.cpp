// C10, schema 2.x: see h_reopen.h
#include "verif.h"
extern "C" uint64_t verif_param(const char*);
#ifdef VERIF_NATIVE
#include <djinterop/djinterop.hpp>
#include <optional>
#include <stdexcept>
#include <string>
#include <cstdlib>
#include <unistd.h>
#include "h_reopen.h"
static djinterop::engine::engine_schema native_schema()
{
    using djinterop::engine::engine_schema;
    static const engine_schema v[] = {engine_schema::schema_2_18_0, engine_schema::schema_2_20_1, engine_schema::schema_2_20_2, engine_schema::schema_2_20_3,
                                      engine_schema::schema_2_21_0, engine_schema::schema_2_21_1, engine_schema::schema_2_21_2};
    return v[verif_param("schema") > 6 ? 6 : verif_param("schema")];
}
extern "C" void h_reopen()
{
    char tmpl[] = "/tmp/verif-reopen-XXXXXX";
    std::string dir = mkdtemp(tmpl);
    run_reopen([&](bool create) {
        if (create) return djinterop::engine::create_database(dir, native_schema());
        djinterop::engine::engine_schema loaded{};
        auto db = djinterop::engine::load_database(dir, loaded);
        verif_assert(loaded == native_schema(), "C10: loading reports a different schema version than the library was created with");
        return db;
    });
    std::string cmd = "rm -rf " + dir; if (std::system(cmd.c_str())) {}
}
#else
#include "v2_unity.h"
#include "h_reopen.h"
extern "C" void h_reopen()
{
    std::optional<v2_fixture> fx;
    run_reopen([&](bool create) {
        fx.reset(); fx.emplace();
        if (create)
            fx->ctx->db << "INSERT INTO Information (id, uuid, schemaVersionMajor, schemaVersionMinor, schemaVersionPatch, currentPlayedIndiciator, lastRekordBoxLibraryImportReadCounter) VALUES (?, ?, ?, ?, ?, ?, ?)"
                        << (int64_t)1 << std::string{"uuid-1"} << (int64_t)2 << (int64_t)21 << (int64_t)2 << (int64_t)0 << (int64_t)0;
        djinterop::database db{std::make_shared<v2::database_impl>(fx->lib)};
        fx->lib.reset(); fx->ctx.reset();      // the fixture keeps only its own connection object; the database object owns the library
        return db;
    });
}
#endif
