// h_reopen.h - C10 harness body (public API only, shared by both schema generations): a history of crate / track operations (the concrete
// prefix + symbolic operations of the membership harness, plus renames of crates and retitling / rating of tracks), then everything
// observable is recorded THROUGH THE HANDLES THE HISTORY HOLDS, every handle and the database object are released (the connection closes:
// an open transaction is rolled back, as SQLite does), the library is opened again and the same observation is made through fresh handles
// obtained by id.  The two observations must be identical.
// Symbolic runs: "opened again" = a new connection + database object over the same modelled store (the relational sqlite3 model keeps the
// committed rows; lsx/models_sqlite.py rolls an open transaction back on sqlite3_close).  Native runs: a library created on disk in a temporary
// directory, closed, and loaded again with djinterop::engine::load_database (the real files, the real loader).
#pragma once
#include "h_members.h"
struct obs_t
{
    std::vector<int64_t> n;
    std::vector<std::string> s;
};
static bool same_str(const std::string& a, const std::string& b)
{
    if (a.size() != b.size()) return false;
    unsigned d = 0; for (size_t i = 0; i < a.size(); ++i) d |= (unsigned char)(a[i] ^ b[i]);
    return d == 0;
}
static void obs_crate(obs_t& o, djinterop::crate& c)
{
    o.n.push_back(c.id()); o.s.push_back(c.name());
    auto p = c.parent(); o.n.push_back(p ? p->id() : -1);
    auto ch = c.children(); std::vector<int64_t> ids; for (auto& x : ch) ids.push_back(x.id());
    if (verif_param("gen") == 1) std::sort(ids.begin(), ids.end());       // (schema 1.x has no sibling order)
    o.n.push_back((int64_t)ids.size()); for (auto id : ids) o.n.push_back(id);
    auto ts = c.tracks(); ids.clear(); for (auto& t : ts) ids.push_back(t.id());
    if (verif_param("gen") == 1) std::sort(ids.begin(), ids.end());
    o.n.push_back((int64_t)ids.size()); for (auto id : ids) o.n.push_back(id);
}
static void obs_track(obs_t& o, djinterop::track& t)
{
    o.n.push_back(t.id()); o.s.push_back(t.relative_path());
    auto ti = t.title(); o.n.push_back(ti.has_value()); o.s.push_back(ti ? *ti : std::string{});
    auto r = t.rating(); o.n.push_back(r.has_value()); o.n.push_back(r ? *r : 0);
}
static void obs_db(obs_t& o, djinterop::database& db)
{
    std::vector<int64_t> ids; for (auto& c : db.crates()) ids.push_back(c.id());
    std::sort(ids.begin(), ids.end()); o.n.push_back((int64_t)ids.size()); for (auto id : ids) o.n.push_back(id);
    ids.clear(); for (auto& c : db.root_crates()) ids.push_back(c.id());
    if (verif_param("gen") == 1) std::sort(ids.begin(), ids.end());
    o.n.push_back((int64_t)ids.size()); for (auto id : ids) o.n.push_back(id);
    ids.clear(); for (auto& t : db.tracks()) ids.push_back(t.id());
    std::sort(ids.begin(), ids.end()); o.n.push_back((int64_t)ids.size()); for (auto id : ids) o.n.push_back(id);
    o.s.push_back(db.uuid()); o.s.push_back(db.version_name());
}
// run parameter "peek": after every operation of the history every live handle is queried (and the answers dropped), so that whatever an
// implementation keeps per handle or per connection - a cache filled on first use - is filled at EVERY point of the history, not only at the end
static void peek_all(djinterop::database& db, members_model& m, std::vector<djinterop::crate>& hc, std::vector<djinterop::track>& ht)
{
    if (!verif_param("peek")) return;
    try
    {
        for (size_t c = 0; c < hc.size(); ++c) if (m.crate_alive[c] && hc[c].is_valid()) { (void)hc[c].name(); (void)hc[c].parent(); }
        for (size_t t = 0; t < ht.size(); ++t) if (m.track_alive[t] && ht[t].is_valid()) { (void)ht[t].title(); (void)ht[t].rating(); }
    }
    catch (const std::exception&) {}
}
template <class Open>
static void run_reopen(Open open)
{
    obs_t before, after;
    std::vector<int64_t> crate_ids, track_ids;
    {
        djinterop::database db = open(true);
        members_model m; std::vector<djinterop::crate> hc; std::vector<djinterop::track> ht;
        uint64_t pre[2] = {verif_param("prefix"), verif_param("prefix2")}; int npre = (int)verif_param("npre");
        for (int i = 0; i < npre && i < 8; ++i)
        {
            uint64_t w = (pre[i / 4] >> (16 * (i % 4))) & 0xffff;
            apply_m(db, m, hc, ht, mop_t{(int)(w & 15), (int)((w >> 4) & 15), (int)((w >> 8) & 15)});
            peek_all(db, m, hc, ht);
        }
        verif_reach("prefix-built");
        int nsym = (int)verif_param("nsym"); uint64_t kinds = verif_param("kinds");
        for (int s = 0; s < nsym; ++s)
        {
            int NC = (int)hc.size(), NT = (int)ht.size(); mop_t o{0, 0, 0};
            int nk = 0, ks[12]; for (int k = 0; k < 12; ++k) if ((kinds >> k) & 1) ks[nk++] = k;
            o.kind = ks[pick(nk, "kind")];
            bool need_c = o.kind == 0 || o.kind == 1 || o.kind == 2 || o.kind == 4 || o.kind == 7 || o.kind == 9,
                 need_t = o.kind == 0 || o.kind == 1 || o.kind == 3 || o.kind == 8 || o.kind == 10;
            if ((need_c && NC == 0) || (need_t && NT == 0)) continue;
            if (o.kind == 3 || o.kind == 8 || o.kind == 10) o.a = pick(NT, "track");
            else { if (need_c) o.a = pick(NC, "crate"); if (need_t) o.b = pick(NT, "track"); }
            if (o.kind < 8) apply_m(db, m, hc, ht, o);
            else
            {   // field writes through the handles: retitle / rate a track, rename a crate (on a removed operand they may throw)
                try
                {
                    if (o.kind == 8) ht[o.a].set_title(std::string{"T"} + std::string(1, (char)verif_range_u32('a', 'z', "title")));
                    else if (o.kind == 9) hc[o.a].set_name(std::string{"N"} + std::string(1, (char)('a' + NC)));
                    else ht[o.a].set_rating((int32_t)verif_range_u32(0, 100, "rating"));
                }
                catch (const std::exception&) {}
            }
            peek_all(db, m, hc, ht);
        }
        verif_reach("history-done");
        // observation through the handles the history holds
        for (size_t c = 0; c < hc.size(); ++c) if (m.crate_alive[c] && hc[c].is_valid()) { crate_ids.push_back(hc[c].id()); obs_crate(before, hc[c]); }
        for (size_t t = 0; t < ht.size(); ++t) if (m.track_alive[t] && ht[t].is_valid()) { track_ids.push_back(ht[t].id()); obs_track(before, ht[t]); }
        obs_db(before, db);
    }   // every handle and the database object are released here
    verif_hook("closed");
    {
        djinterop::database db = open(false);
        for (auto id : crate_ids)
        {
            auto c = db.crate_by_id(id);
            verif_assert(c.has_value(), "C10: a crate observed before closing is not found after reopening");
            if (!c) return;
            obs_crate(after, *c);
        }
        for (auto id : track_ids)
        {
            auto t = db.track_by_id(id);
            verif_assert(t.has_value(), "C10: a track observed before closing is not found after reopening");
            if (!t) return;
            obs_track(after, *t);
        }
        obs_db(after, db);
    }
    verif_assert(before.n.size() == after.n.size() && before.s.size() == after.s.size(), "C10: the library lists different crates / tracks / members after reopening");
    if (before.n.size() != after.n.size() || before.s.size() != after.s.size()) return;
    bool same = true;
    for (size_t i = 0; i < before.n.size(); ++i) same = same && before.n[i] == after.n[i];
    verif_assert(same, "C10: ids, parents, listings, memberships or numeric fields observed before closing differ after reopening");
    same = true;
    for (size_t i = 0; i < before.s.size(); ++i) same = same && same_str(before.s[i], after.s[i]);
    verif_assert(same, "C10: names, paths, titles, uuid or version observed before closing differ after reopening");
    verif_reach("checked");
}
