// C13: schema and layout detection.  Real detect_schema / detect_is_database2 / load_database / v1 engine_storage(directory)
// over the abstract sqlite3 model (arbitrary stored version triple, arbitrary table_info rows) and a symbolic file system.
#include "verif.h"
#include "/repo/src/djinterop/util/filesystem.cpp"
#include "/repo/src/djinterop/engine/engine_library_dir_utils.cpp"
#include "/repo/src/djinterop/engine/schema/schema.cpp"
#include "/repo/src/djinterop/engine/v1/engine_storage.cpp"
#include "/repo/src/djinterop/engine/engine.cpp"
#include "/repo/src/djinterop/engine/base_engine_library.cpp"
#include "/repo/src/djinterop/engine/v2/engine_library.cpp"
#include "/repo/src/djinterop/engine/v2/database_impl.cpp"
#include "/repo/src/djinterop/engine/v1/engine_database_impl.cpp"
#include "/repo/src/djinterop/database.cpp"
#include "/repo/src/djinterop/impl/database_impl.cpp"
using namespace djinterop;
using namespace djinterop::engine;
extern "C" uint64_t verif_param(const char*);
// what the sqlite3 model answered (recorded by the model when the version row / table_info row is read)
extern "C" int32_t verif_db_major(); extern "C" int32_t verif_db_minor(); extern "C" int32_t verif_db_patch();
extern "C" int32_t verif_db_info_tables();     // COUNT(*) of Information tables
extern "C" int32_t verif_db_version_rows();    // rows in Information
extern "C" int32_t verif_db_ext_numeric();     // 1 iff table_info reports Track.isExternalTrack with type NUMERIC (last matching row wins)
extern "C" int32_t verif_fs_exists(const char* path);   // what the file-system model answered for path (-1: never asked)

// reference decision table, written from the property statement / public engine_schema.hpp (18 supported versions)
static int ref_schema(int32_t maj, int32_t min, int32_t pat, bool numeric)
{
    struct row { int32_t a, b, c; engine_schema s; };
    static const row tab[] = {
        {1, 6, 0, engine_schema::schema_1_6_0},   {1, 7, 1, engine_schema::schema_1_7_1},   {1, 9, 1, engine_schema::schema_1_9_1},
        {1, 11, 1, engine_schema::schema_1_11_1}, {1, 13, 0, engine_schema::schema_1_13_0}, {1, 13, 1, engine_schema::schema_1_13_1},
        {1, 13, 2, engine_schema::schema_1_13_2}, {1, 15, 0, engine_schema::schema_1_15_0}, {1, 17, 0, engine_schema::schema_1_17_0},
        {2, 18, 0, engine_schema::schema_2_18_0}, {2, 20, 1, engine_schema::schema_2_20_1}, {2, 20, 2, engine_schema::schema_2_20_2},
        {2, 20, 3, engine_schema::schema_2_20_3}, {2, 21, 0, engine_schema::schema_2_21_0}, {2, 21, 1, engine_schema::schema_2_21_1},
        {2, 21, 2, engine_schema::schema_2_21_2}};
    if (maj == 1 && min == 18 && pat == 0) return (int)(numeric ? engine_schema::schema_1_18_0_desktop : engine_schema::schema_1_18_0_os);
    for (auto& r : tab) if (r.a == maj && r.b == min && r.c == pat) return (int)r.s;
    return -1;
}

static void check_detect(const std::string& schema_name)
{
    sqlite::database db{":memory:"};
    int got = -2;     // -1: unsupported_database, -3: other djinterop/std exception
    try { got = (int)schema::detect_schema(db, schema_name); }
    catch (const unsupported_database&) { got = -1; }
    catch (const std::exception&) { got = -3; }
    verif_reach("detect-called");
    if (verif_db_info_tables() != 1 || verif_db_version_rows() != 1)
    {
        verif_assert(got == -3, "D0: no (single) Information row: detection must fail, not guess a version");
        return;
    }
    int want = ref_schema(verif_db_major(), verif_db_minor(), verif_db_patch(), verif_db_ext_numeric() == 1);
    if (want >= 0) verif_reach("supported");
    else verif_reach("unsupported");
    verif_assert(got != -3, "D1: a readable version row never produces an unrelated error");
    verif_assert(got == want, "D2: detected schema differs from the decision table (supported triple -> its schema, every other triple -> unsupported_database)");
}
extern "C" void h_detect_plain() { check_detect(""); }
extern "C" void h_detect_music() { check_detect("music"); }

extern "C" void h_layout()
{
    int got = -2;
    try { got = detect_is_database2("dir") ? 1 : 0; }
    catch (const database_not_found&) { got = -1; }
    verif_reach("layout-called");
    int d = verif_fs_exists("dir"), m = verif_fs_exists("dir/m.db"), m2 = verif_fs_exists("dir/Database2/m.db");
    if (d == 0) { verif_assert(got == -1, "L0: missing directory -> database_not_found"); return; }
    verif_assert(d == 1 && m >= 0 && m2 >= 0, "L: both candidate files are looked at");
    if (m == 0 && m2 == 0) verif_assert(got == -1, "L1: no database -> database_not_found");
    else if (m == 1 && m2 == 1) verif_assert(got == -1, "L2: both layouts present -> database_not_found");
    else verif_assert(got == (m2 == 1 ? 1 : 0), "L3: exactly one layout present -> that layout");
}

// dispatch evidence: which database files the chosen implementation opened / attached (recorded by the sqlite3 model):
// 1 = legacy layout (ATTACH dir/m.db and dir/p.db), 2 = Database2 layout (open dir/Database2/m.db), 0 = neither, 3 = both
extern "C" int32_t verif_dispatched();
extern "C" void h_load()
{
    engine_schema loaded = engine_schema::schema_1_6_0;
    bool poisoned = verif_param("poison") != 0;
    if (poisoned) loaded = engine_schema::schema_3_0_0;      // a second starting value, to tell "assigned" from "left alone"
    int got = -2;
    try { auto db = load_database("dir", loaded); got = 0; }
    catch (const database_not_found&) { got = -1; }
    catch (const unsupported_database&) { got = -4; }
    catch (const std::exception&) { got = -3; }
    verif_reach("load-called");
    int d = verif_fs_exists("dir"), m = verif_fs_exists("dir/m.db"), m2 = verif_fs_exists("dir/Database2/m.db");
    bool one_layout = d == 1 && ((m == 1) != (m2 == 1));
    if (!one_layout) { verif_assert(got == -1, "P0: no / ambiguous layout -> database_not_found"); return; }
    if (got != 0)
    {
        // loading may fail only because the stored version is missing or unsupported
        int want = (verif_db_info_tables() == 1 && verif_db_version_rows() == 1) ? ref_schema(verif_db_major(), verif_db_minor(), verif_db_patch(), verif_db_ext_numeric() == 1) : -1;
        verif_assert(want < 0 || got == -3, "P1: a supported stored version loads");
        if (want < 0 && verif_db_info_tables() == 1 && verif_db_version_rows() == 1) verif_assert(got == -4, "P2: an unsupported stored version is rejected with unsupported_database");
        return;
    }
    verif_reach("loaded");
    int want = ref_schema(verif_db_major(), verif_db_minor(), verif_db_patch(), verif_db_ext_numeric() == 1);
    verif_assert(want >= 0, "P3: only supported versions load");
    verif_assert((int)loaded == want, "P4: load_database reports the schema version stored in the library");
    bool v1 = want <= (int)engine_schema::schema_1_18_0_os;
    // informational only (the property does not state it): a 2.x version stored in a legacy-layout m.db is loaded through the
    // 1.x implementation (verif_dispatched() == 1 although !v1)
    verif_note("dispatch", (uint64_t)verif_dispatched());
    verif_assert(verif_dispatched() == (m2 == 1 ? 2 : 1), "P5: exactly the files of the detected layout are opened");
}

// database_exists(): the observing twin of load_database (C16 runs this and h_load with the "no write statement" oracle)
extern "C" void h_exists()
{
    int got = -2;
    try { got = database_exists("dir") ? 1 : 0; }
    catch (const std::exception&) { got = -3; }
    verif_reach("exists-called");
    int d = verif_fs_exists("dir"), m = verif_fs_exists("dir/m.db"), m2 = verif_fs_exists("dir/Database2/m.db");
    bool one_layout = d == 1 && ((m == 1) != (m2 == 1));
    if (!one_layout) verif_assert(got == 0, "E0: no / ambiguous layout -> database_exists() is false");
    else verif_assert(got == 1 || got == -3, "E1: exactly one layout -> database_exists() is true (or loading fails for another reason)");
}

// C10 (create-or-load half): create_or_load_database creates a library exactly when none exists.  The real create_or_load_database and
// load_database run over the same models as h_load; create_database itself is replaced by a recorder (what a creator writes is C11 / C12 / C17's
// subject): verif_created() = number of calls, verif_created_schema() = the schema enumerator it was asked for (-1: never called).
extern "C" int32_t verif_created(); extern "C" int32_t verif_created_schema();
extern "C" void h_create_or_load()
{
    auto asked = (engine_schema)verif_range_u32(0, (uint32_t)engine_schema::schema_3_0_0, "asked");
    engine_schema loaded = (engine_schema)verif_range_u32(0, (uint32_t)engine_schema::schema_3_0_0, "start");   // the documentation leaves it undefined after a creation: only checked after a load
    bool created = verif::boolean("created0");
    int got = -2;
    try { auto db = create_or_load_database("dir", asked, created, loaded); got = 0; }
    catch (const database_not_found&) { got = -1; }
    catch (const unsupported_database&) { got = -4; }
    catch (const std::exception&) { got = -3; }
    verif_reach("col-called");
    // version 3.0.0 is accepted although it is not among the supported versions: a listed known finding of C13, not judged again here
    verif_assume(!(verif_db_major() == 3 && verif_db_minor() == 0 && verif_db_patch() == 0));
    int d = verif_fs_exists("dir"), m = verif_fs_exists("dir/m.db"), m2 = verif_fs_exists("dir/Database2/m.db");
    bool none = d != 1 || (m != 1 && m2 != 1);
    bool both = d == 1 && m == 1 && m2 == 1;
    bool readable = verif_db_info_tables() == 1 && verif_db_version_rows() == 1;
    int want = readable ? ref_schema(verif_db_major(), verif_db_minor(), verif_db_patch(), verif_db_ext_numeric() == 1) : -1;
    if (none)
    {
        verif_reach("col-none");
        verif_assert(got == 0 && created && verif_created() == 1, "C10: create_or_load_database did not create a library although none exists");
        verif_assert(verif_created_schema() == (int)asked, "C10: create_or_load_database created a library of another schema version than the one asked for");
        verif_assert(verif_dispatched() == 0, "C10: create_or_load_database opened database files although none exists");
        return;
    }
    if (both) return;      // both layouts: load_database documents database_not_found (C13 L2); what create-or-load then does is not stated - not asserted
    // exactly one library exists: it must never be created over, whatever it holds
    verif_reach("col-exists");
    verif_assert(verif_created() == 0, "C10: create_or_load_database created a library although one exists in the directory (an unreadable or unsupported library would be written over)");
    if (got == 0)
    {
        verif_reach("col-loaded");
        verif_assert(!created, "C10: create_or_load_database reports 'created' for a library that it loaded");
        verif_assert(want >= 0 && (int)loaded == want, "C10: create_or_load_database does not report the schema version stored in the library it loaded");
    }
    else
    {
        // (as in P1: the model answers every query independently, so a second attached file may disagree with the first - an error other than the three judged ones)
        verif_assert(want < 0 || got == -3, "C10: create_or_load_database rejects an existing library of a supported version as unsupported or not found");
        if (readable && want < 0) { verif_assert(got == -4, "C10: an existing library of an unsupported version is not reported as unsupported_database"); }
    }
}
