// h_crates.h - C07 / C09 harness body (public API only, shared by both schema generations): a concrete prefix of crate operations (run
// parameter "prefix", chosen by the check: builds a forest shape) followed by "nsym" operations whose kind, operands and names are symbolic.
// After every operation the whole public query surface is compared with a reference forest kept in the harness (written from the
// property statement): crates(), root_crates(), parent(), name(), children() (ordered), descendants(), crate_by_id, lookups by parent
// and name, is_valid() of every handle ever created.
#pragma once
#include <algorithm>
struct forest
{
    struct node { int64_t id; std::string name; int parent; bool alive; };
    std::vector<node> n;                       // every crate ever created, in creation order (index = handle number)
    std::vector<std::vector<int>> order;       // order[p + 1] = children of p (p = -1: the root list), in listing order
    std::vector<int>& kids(int p) { return order[p + 1]; }
    bool in_subtree(int x, int root) const { for (int c = x; c != -1; c = n[c].parent) if (c == root) return true; return false; }
    int live() const { int k = 0; for (auto& x : n) k += x.alive; return k; }
};
static bool same_s(const std::string& a, const std::string& b)
{
    if (a.size() != b.size()) return false;
    unsigned d = 0; for (size_t i = 0; i < a.size(); ++i) d |= (unsigned char)(a[i] ^ b[i]);
    return d == 0;
}
static bool valid_name(const std::string& s)
{
    if (s.empty()) return false;
    for (char c : s) if (c == ';') return false;
    return true;
}
// (schema 1.x has no uniqueness constraint on sibling names and the statement does not demand one: duplicates are legal there)
static bool name_taken(forest& f, int parent, const std::string& nm, int except = -1)
{
    if (verif_param("gen") == 1) return false;
    for (int k : f.kids(parent)) if (k != except && same_s(f.n[k].name, nm)) return true;
    return false;
}
#define CK(c, msg) verif_assert((c), msg)
template <class L> static std::vector<int64_t> ids_of(const L& l) { std::vector<int64_t> r; for (auto& c : l) r.push_back(c.id()); return r; }
// schema 2.x lists siblings in a total order (C09); schema 1.x has no sibling order: there the listing is compared as a set
static bool seq_eq(const std::vector<int64_t>& a, const std::vector<int>& m, const forest& f)
{
    if (a.size() != m.size()) return false;
    if (verif_param("gen") == 1)
    {
        for (size_t i = 0; i < m.size(); ++i) { int cnt = 0; for (auto id : a) cnt += id == f.n[m[i]].id; if (cnt != 1) return false; }
        return true;
    }
    for (size_t i = 0; i < a.size(); ++i) if (a[i] != f.n[m[i]].id) return false;
    return true;
}
static void check_all(djinterop::database& db, forest& f, std::vector<djinterop::crate>& h)
{
    auto all = ids_of(db.crates());
    CK((int)all.size() == f.live(), "C07: crates() does not return exactly the live crates (count)");
    for (size_t i = 0; i < f.n.size(); ++i)
    {
        int cnt = 0; for (auto id : all) cnt += id == f.n[i].id;
        if (f.n[i].alive) CK(cnt == 1, "C07: a live crate does not appear exactly once in crates()");
    }
    for (size_t i = 0; i < f.n.size(); ++i) for (size_t j = i + 1; j < f.n.size(); ++j)
        if (f.n[i].alive && f.n[j].alive) CK(f.n[i].id != f.n[j].id, "C07: two live crates share an id");
    CK(seq_eq(ids_of(db.root_crates()), f.kids(-1), f), "C07/C09: root_crates() is not exactly the parentless crates in order");
    for (size_t i = 0; i < f.n.size(); ++i)
    {
        auto& nd = f.n[i]; auto& c = h[i];
        if (!nd.alive) continue;       // (removed crates are judged last, see below)
        CK(c.is_valid(), "C07: live crate reports !is_valid()");
        auto p = c.parent();
        if (nd.parent == -1) CK(!p.has_value(), "C07: parent() of a root crate is not absent");
        else CK(p.has_value() && p->id() == f.n[nd.parent].id, "C07: parent() is not the expected live crate");
        CK(same_s(c.name(), nd.name), "C07: name() differs from the name last set");
        CK(seq_eq(ids_of(c.children()), f.kids((int)i), f), "C07/C09: children() is not exactly the crates whose parent is this crate, in order");
        auto desc = ids_of(c.descendants()); int want = 0;
        for (size_t j = 0; j < f.n.size(); ++j)
            if (j != i && f.n[j].alive && f.in_subtree((int)j, (int)i))
            { ++want; int cnt = 0; for (auto id : desc) cnt += id == f.n[j].id; CK(cnt == 1, "C07: descendants() misses or repeats a descendant"); }
        CK((int)desc.size() == want, "C07: descendants() is not the transitive closure of children()");
        auto byid = db.crate_by_id(nd.id);
        CK(byid.has_value() && byid->id() == nd.id, "C07: crate_by_id does not find a live crate");
        auto byname = nd.parent == -1 ? db.root_crate_by_name(nd.name) : h[nd.parent].sub_crate_by_name(nd.name);
        bool found = false;      // (with duplicate sibling names - 1.x only - any of the namesakes)
        if (byname.has_value()) for (auto& o : f.n) found |= o.alive && o.id == byname->id() && o.parent == nd.parent && same_s(o.name, nd.name);
        CK(found && (verif_param("gen") == 1 || byname->id() == nd.id), "C07: lookup by parent and name does not find the crate");
    }
    // removed crates last: where a generation hands a removed crate's id out again (listed known finding of schema 1.x) the path ends here, after
    // every live crate - including the one that inherited the id - has been compared with the reference forest
    for (size_t i = 0; i < f.n.size(); ++i)
    {
        auto& nd = f.n[i]; auto& c = h[i];
        if (nd.alive) continue;
        bool reused = false; for (auto& o : f.n) reused |= o.alive && o.id == nd.id;
        if (verif_param("gen") == 1) CK(!reused, "C07: schema 1.x: the id of a removed crate was given to a new crate (ids collide; the stale handle is valid again)");
        else CK(!reused, "C07: the id of a removed crate was given to a new crate (ids collide; the stale handle is valid again)");
        CK(!c.is_valid(), "C07: handle of a removed crate reports is_valid()");
        CK(!db.crate_by_id(nd.id).has_value(), "C07: crate_by_id returns a removed crate");
    }
}
// the sibling list `obs` (ids observed after the operation) must be `old` with `x` inserted exactly once (anywhere, or right after `after` when given)
static bool inserted_ok(const std::vector<int64_t>& obs, const std::vector<int>& old, int x, int after, forest& f, std::vector<int>& out)
{
    if (obs.size() != old.size() + 1) return false;
    if (verif_param("gen") == 1)
    {   // unordered generation: the old siblings and the new one each exactly once
        out = old; out.push_back(x);
        for (int k : out) { int cnt = 0; for (auto id : obs) cnt += id == f.n[k].id; if (cnt != 1) return false; }
        return true;
    }
    out.clear(); size_t j = 0; bool seen = false;
    for (size_t i = 0; i < obs.size(); ++i)
    {
        if (!seen && obs[i] == f.n[x].id && (j >= old.size() || obs[i] != f.n[old[j]].id))
        {
            if (after != -1 && (out.empty() || out.back() != after)) return false;
            seen = true; out.push_back(x); continue;
        }
        if (j >= old.size() || obs[i] != f.n[old[j]].id) return false;
        out.push_back(old[j++]);
    }
    return seen && j == old.size();
}
static int pick(int n, const char* what)
{
    uint32_t v = verif_range_u32(0, (uint32_t)(n - 1), what);
    for (int i = 0; i < n - 1; ++i) if (v == (uint32_t)i) return i;
    return n - 1;
}
static std::string sym_name()
{
    uint8_t b = verif_u8("name");
    if (b == 0) return std::string{};            // the empty name
    return std::string(1, (char)b);              // any one-byte name, including ';'
}
// one operation; kind / operands are concrete for prefix operations and symbolic afterwards
struct op_t { int kind; int a; int b; std::string name; };
static void apply(djinterop::database& db, forest& f, std::vector<djinterop::crate>& h, const op_t& o)
{
    const int N = (int)f.n.size();
    bool threw = false; std::optional<djinterop::crate> made;
    auto alive = [&](int i) { return i >= 0 && i < N && f.n[i].alive; };
    bool legal = true; int parent = -1, after = -1;
    const bool g1 = verif_param("gen") == 1;      // schema 1.x has no sibling order: the "after" argument of create_*_after is documented as not (yet) honoured there
    try
    {
        switch (o.kind)
        {
            case 0: legal = valid_name(o.name) && !name_taken(f, -1, o.name); made = db.create_root_crate(o.name); break;
            case 1: after = o.a; legal = valid_name(o.name) && !name_taken(f, -1, o.name) && (g1 || (alive(after) && f.n[after].parent == -1));
                    made = db.create_root_crate_after(o.name, h[after]); if (g1) after = -1; break;
            case 2: parent = o.a; legal = alive(parent) && valid_name(o.name) && !name_taken(f, parent, o.name); made = h[parent].create_sub_crate(o.name); break;
            case 3: parent = o.a; after = o.b; legal = alive(parent) && (g1 || (alive(after) && f.n[after].parent == parent)) && valid_name(o.name) && !name_taken(f, parent, o.name);
                    made = h[parent].create_sub_crate_after(o.name, h[after]); if (g1) after = -1; break;
            case 4: legal = alive(o.a) && valid_name(o.name) && !name_taken(f, f.n[o.a].parent, o.name, o.a); h[o.a].set_name(o.name); break;
            case 5: parent = o.b;    // -1 = make it a root crate
                    legal = alive(o.a) && (parent == -1 || (alive(parent) && !f.in_subtree(parent, o.a))) && (parent == f.n[o.a].parent || !name_taken(f, parent, f.n[o.a].name));
                    h[o.a].set_parent(parent == -1 ? std::nullopt : std::make_optional(h[parent])); break;
            case 6: legal = true; db.remove_crate(h[o.a]); break;
            default: verif_fail("unknown crate op");
        }
    }
    catch (const std::exception&) { threw = true; }
    verif_note("op", (uint64_t)o.kind); verif_note("legal", legal); verif_note("threw", threw);
    // an operation on a removed crate may throw or silently do nothing (the statement only demands that it has no effect: checked below against the unchanged reference)
    bool dead_operand = false;
    switch (o.kind)
    {
        case 1: dead_operand = !g1 && !alive(o.a); break;
        case 2: dead_operand = !alive(o.a); break;
        case 3: dead_operand = !alive(o.a) || (!g1 && !alive(o.b)); break;
        case 4: dead_operand = !alive(o.a); break;
        case 5: dead_operand = !alive(o.a) || (o.b != -1 && !alive(o.b)); break;
        default: break;
    }
    if (!legal && !dead_operand) CK(threw, "C07: an operation the statement requires to be rejected (invalid name, cycle, foreign sibling, duplicate sibling name) was accepted");
    if (legal) CK(!threw, "C07: a legal crate operation was rejected");
    if (!threw && legal)
    {
        switch (o.kind)
        {
            case 0: case 1: case 2: case 3:
            {
                f.n.push_back({made->id(), o.name, parent, true}); f.order.emplace_back(); h.push_back(*made);
                int x = (int)f.n.size() - 1; std::vector<int> out;
                auto obs = parent == -1 ? ids_of(db.root_crates()) : ids_of(h[parent].children());
                CK(inserted_ok(obs, f.kids(parent), x, after, f, out), "C09: the new crate does not appear exactly once among its siblings (immediately after the given one), or a sibling was lost, duplicated or reordered");
                if (out.size() == f.kids(parent).size() + 1) f.kids(parent) = out; else f.kids(parent).push_back(x);
                break;
            }
            case 4: f.n[o.a].name = o.name; break;
            case 5:
                if (parent != f.n[o.a].parent)
                {
                    auto& ol = f.kids(f.n[o.a].parent); ol.erase(std::find(ol.begin(), ol.end(), o.a));
                    std::vector<int> out; auto obs = parent == -1 ? ids_of(db.root_crates()) : ids_of(h[parent].children());
                    CK(inserted_ok(obs, f.kids(parent), o.a, -1, f, out), "C09: the moved crate does not appear exactly once among its new siblings, or a sibling was lost, duplicated or reordered");
                    if (out.size() == f.kids(parent).size() + 1) f.kids(parent) = out; else f.kids(parent).push_back(o.a);
                    f.n[o.a].parent = parent;
                }
                break;
            case 6:
                if (f.n[o.a].alive)
                {
                    auto& ol = f.kids(f.n[o.a].parent); ol.erase(std::find(ol.begin(), ol.end(), o.a));
                    for (int j = 0; j < N; ++j) if (f.n[j].alive && f.in_subtree(j, o.a) && j != o.a) { f.n[j].alive = false; }
                    f.n[o.a].alive = false;
                    for (int j = 0; j < N; ++j) if (!f.n[j].alive) f.kids(j).clear();
                }
                break;
        }
    }
    verif_hook("raw-tables");      // C11: independent reader of the stored tables (symbolic runs), before the API-level comparison
    check_all(db, f, h);
}
static void run_crates(djinterop::database& db)
{
    forest f; f.order.emplace_back(); std::vector<djinterop::crate> h;
    // prefix: packed concrete operations, 16 bits each: kind(4) a(4) b(4) name(4); name k -> "a" + k
    uint64_t pre[2] = {verif_param("prefix"), verif_param("prefix2")}; int npre = (int)verif_param("npre");      // 4 operations per word
    for (int i = 0; i < npre && i < 8; ++i)
    {
        uint64_t w = (pre[i / 4] >> (16 * (i % 4))) & 0xffff;
        op_t o{(int)(w & 15), (int)((w >> 4) & 15), (int)((w >> 8) & 15) == 15 ? -1 : (int)((w >> 8) & 15), std::string(1, (char)('a' + ((w >> 12) & 15)))};
        apply(db, f, h, o);
    }
    verif_reach("prefix-built");
    int nsym = (int)verif_param("nsym"); uint64_t kinds = verif_param("kinds");       // bit k: kind k allowed for the symbolic operations
    for (int s = 0; s < nsym; ++s)
    {
        int N = (int)f.n.size(); op_t o{0, 0, 0, {}};
        int nk = 0, ks[8]; for (int k = 0; k < 7; ++k) if ((kinds >> k) & 1) ks[nk++] = k;
        o.kind = ks[pick(nk, "kind")];
        if (N == 0 && o.kind != 0) continue;
        switch (o.kind)
        {
            case 0: o.name = sym_name(); break;
            case 1: o.a = pick(N, "after"); o.name = sym_name(); break;
            case 2: o.a = pick(N, "parent"); o.name = sym_name(); break;
            case 3: o.a = pick(N, "parent"); o.b = pick(N, "after"); o.name = sym_name(); break;
            case 4: o.a = pick(N, "crate"); o.name = sym_name(); break;
            case 5: o.a = pick(N, "crate"); o.b = pick(N + 1, "new_parent") - 1; break;
            case 6: o.a = pick(N, "crate"); break;
        }
        apply(db, f, h, o);
    }
    verif_reach("checked");
}
