// verif_native.cpp - native implementation of the harness API: inputs come from a recorded file
// (VERIF_REPLAY: one "bits value" per line, in the order the harness asks for them).  Used (a) to replay a
// solver counterexample against the real code under ASan/UBSan, (b) to validate the executor against the
// real build on concrete inputs (the NOTE/REACH trace must be identical).
#include <cstdio>
#include <cstdlib>
#include <cstring>
#include <cstdint>
#include <string>
#include <exception>
#include <unistd.h>
#include <dlfcn.h>
#include "verif.h"
#include <regex>
static FILE* in = nullptr;
static uint64_t next_val(int bits, const char* name)
{
    if (!in) { const char* p = getenv("VERIF_REPLAY"); in = p ? fopen(p, "r") : nullptr; }
    int b = 0; unsigned long long v = 0;
    if (!in || fscanf(in, "%d %llu", &b, &v) != 2) { printf("REPLAY-EXHAUSTED at %s\n", name); fflush(stdout); _exit(78); }
    if (b != bits) { printf("REPLAY-MISMATCH at %s: recorded %d bits, asked %d\n", name, b, bits); fflush(stdout); _exit(78); }
    return v;
}
extern "C" {
uint8_t verif_u8(const char* n) { return (uint8_t)next_val(8, n); }
uint16_t verif_u16(const char* n) { return (uint16_t)next_val(16, n); }
uint32_t verif_u32(const char* n) { return (uint32_t)next_val(32, n); }
uint64_t verif_u64(const char* n) { return next_val(64, n); }
uint32_t verif_range_u32(uint32_t lo, uint32_t hi, const char* n) { uint32_t v = (uint32_t)next_val(32, n); if (v < lo || v > hi) { printf("ASSUME-FALSE\n"); fflush(stdout); _exit(77); } return v; }
uint64_t verif_range_u64(uint64_t lo, uint64_t hi, const char* n) { uint64_t v = next_val(64, n); if (v < lo || v > hi) { printf("ASSUME-FALSE\n"); fflush(stdout); _exit(77); } return v; }
void verif_bytes(void* p, size_t n, const char* name) { for (size_t i = 0; i < n; i++) ((uint8_t*)p)[i] = (uint8_t)next_val(8, name); }
void verif_assume(int c) { if (!c) { printf("ASSUME-FALSE\n"); fflush(stdout); _exit(77); } }
static bool assert_counts(const char* msg)
{
    // VERIF_ASSERT_FILTER: the assertions of the property being checked (a regular expression searched in the message); assertions of a shared
    // harness body that belong to another property are reported but do not end the run - exactly what the symbolic run does
    const char* f = getenv("VERIF_ASSERT_FILTER");
    if (!f || !*f) return true;
    try { return std::regex_search(msg, std::regex(f)); } catch (...) { return true; }
}
void verif_assert(int c, const char* msg)
{
    if (c) return;
    if (!assert_counts(msg)) { printf("VERIF-ASSERT-SKIPPED %s\n", msg); return; }
    printf("VERIF-ASSERT-FAILED %s\n", msg); fflush(stdout); _exit(99);
}
void verif_reach(const char* name) { printf("REACH %s\n", name); }
void verif_note(const char* name, uint64_t v) { printf("NOTE %s %llu\n", name, (unsigned long long)v); }
void verif_hook(const char*) {}
void verif_fail(const char* msg) { printf("VERIF-ASSERT-FAILED %s\n", msg); fflush(stdout); _exit(99); }
static uint64_t param(const char* name)
{
    const char* p = getenv("VERIF_PARAMS");   // "len=44,k=3"
    std::string s = p ? p : "";
    std::string key = std::string(name) + "=";
    size_t pos = 0;
    while (pos < s.size())
    {
        size_t e = s.find(',', pos); if (e == std::string::npos) e = s.size();
        if (s.compare(pos, key.size(), key) == 0) return strtoull(s.c_str() + pos + key.size(), nullptr, 10);
        pos = e + 1;
    }
    if (!strcmp(name, "xd") || !strcmp(name, "peek")) return 0;      // optional run parameters (default keeps the earlier behaviour)
    printf("MISSING-PARAM %s\n", name); _exit(78);
}
uint64_t verif_len() { return param("len"); }
uint64_t verif_param(const char* name) { return param(name); }
}
int main(int argc, char** argv)
{
    if (argc < 2) return 2;
    alarm(argc > 2 ? atoi(argv[2]) : 20);
    auto fn = (void (*)())dlsym(RTLD_DEFAULT, argv[1]);
    if (!fn) { printf("NO-ENTRY %s\n", argv[1]); return 2; }
    try { fn(); }
    catch (const std::exception& e) { printf("ESCAPED std::exception %s\n", e.what()); fflush(stdout); return 98; }
    catch (...) { printf("ESCAPED non-std exception\n"); fflush(stdout); return 97; }
    printf("RETURNED\n");
    return 0;
}
