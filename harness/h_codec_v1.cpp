// C02/C03: schema-1.x codecs (performance_data_format.cpp): symbolic values in the documented domain ->
// real encode/decode; independent reference byte layout.
#include "verif.h"
#include "/repo/src/djinterop/engine/v1/performance_data_format.cpp"
using namespace djinterop;
using namespace djinterop::engine;
using namespace djinterop::engine::v1;
extern "C" uint64_t verif_param(const char*);
typedef std::vector<std::byte> bytes_t;
typedef std::vector<uint8_t> ref_t;
#define EQ(c, what) verif_assert((c), what)
static uint64_t B(double d) { return verif::bits(d); }

static std::string sym_string(size_t n, const char* name)
{
    std::string s(n, '\0');
    if (n) verif_bytes(s.data(), n, name);
    return s;
}
static pad_color sym_color() { return pad_color{verif_u8("r"), verif_u8("g"), verif_u8("b"), verif_u8("a")}; }
static bool same_str(const std::string& a, const std::string& b)
{
    if (a.size() != b.size()) return false;
    unsigned d = 0;
    for (size_t i = 0; i < a.size(); ++i) d |= (unsigned char)(a[i] ^ b[i]);
    return d == 0;
}
static bool same_bytes(const bytes_t& a, const bytes_t& b)
{
    if (a.size() != b.size()) return false;
    unsigned d = 0;
    for (size_t i = 0; i < a.size(); ++i) d |= (unsigned)(a[i] ^ b[i]);
    return d == 0;
}

// ---------------------------------------------------------------- symbolic values in the documented domain
static beat_data sym_beat()
{
    beat_data x;
    if (verif::boolean("has_rate")) { double v = verif::f64("sample_rate"); verif_assume(v != 0); x.sample_rate = v; }      // 0 is the "absent" sentinel
    if (verif::boolean("has_count")) { double v = verif::f64("sample_count"); verif_assume(v != 0); x.sample_count = v; }
    for (int g = 0; g < 2; ++g)
    {
        auto& grid = g ? x.adjusted_beatgrid : x.default_beatgrid;
        uint64_t k = verif_param(g ? "k2" : "k1");   // 0 or >= 2 (a one-marker grid is not a grid)
        for (uint64_t i = 0; i < k; ++i)
        {
            beatgrid_marker m; m.index = verif::i32("m.index"); m.sample_offset = verif::f64("m.offset");
            if (i) verif_assume(m.index > grid.back().index && m.sample_offset > grid.back().sample_offset);   // sorted, as documented
            if (i && verif_param("near")) verif_assume((int64_t)m.index - grid.back().index <= 0x7fffffff);    // the 32-bit "beats to next marker" field can hold the distance
            grid.push_back(m);
        }
    }
    return x;
}
static std::vector<waveform_entry> sym_wave(bool with_opacity)
{
    std::vector<waveform_entry> w;
    uint64_t k = verif_param("k1");
    for (uint64_t i = 0; i < k; ++i)
    {
        waveform_entry e;
        e.low.value = verif_u8("lo"); e.mid.value = verif_u8("mid"); e.high.value = verif_u8("hi");
        if (with_opacity) { e.low.opacity = verif_u8("lo.o"); e.mid.opacity = verif_u8("mid.o"); e.high.opacity = verif_u8("hi.o"); }
        w.push_back(e);
    }
    return w;
}
static high_res_waveform_data sym_highres() { high_res_waveform_data x; x.samples_per_entry = verif::f64("spe"); x.waveform = sym_wave(true); return x; }
// the overview format stores no opacity: only the default (255) is in its domain
static overview_waveform_data sym_overview() { overview_waveform_data x; x.samples_per_entry = verif::f64("spe"); x.waveform = sym_wave(false); return x; }
static size_t label_len(uint64_t i) { uint64_t ll = verif_param("ll"); return i == 0 ? ll : (ll > 3 ? 1 : 1 + (ll + i) % 3); }
static loops_data sym_loops()
{
    loops_data x;
    uint64_t k = verif_param("k1");
    for (uint64_t i = 0; i < k; ++i)
    {
        if (!((verif_param("mask") >> i) & 1)) { x.loops.push_back(std::nullopt); continue; }   // presence pattern is a run parameter
        loop l; l.label = sym_string(label_len(i), "label"); l.start_sample_offset = verif::f64("start"); l.end_sample_offset = verif::f64("end"); l.color = sym_color();
        x.loops.push_back(l);
    }
    return x;
}
static quick_cues_data sym_cues()
{
    quick_cues_data x;
    uint64_t k = verif_param("k1");
    for (uint64_t i = 0; i < k; ++i)
    {
        if (!((verif_param("mask") >> i) & 1)) { x.hot_cues.push_back(std::nullopt); continue; }
        hot_cue c; c.label = sym_string(label_len(i), "label"); c.sample_offset = verif::f64("offset"); c.color = sym_color();
        x.hot_cues.push_back(c);
    }
    x.adjusted_main_cue = verif::f64("adj"); x.default_main_cue = verif::f64("def");
    return x;
}
static track_data sym_track()
{
    track_data x;
    if (verif::boolean("has_rate")) { double v = verif::f64("sample_rate"); verif_assume(v != 0); x.sample_rate = v; }
    if (verif::boolean("has_count")) { int64_t v = verif::i64("sample_count"); verif_assume(v != 0); x.sample_count = v; }
    if (verif::boolean("has_loud")) { double v = verif::f64("loudness"); verif_assume(v != 0); x.average_loudness = v; }
    if (verif::boolean("has_key")) { uint32_t k = verif_u32("key"); verif_assume(k <= 23); x.key = static_cast<musical_key>(k); }   // all 24 keys
    return x;
}

// ---------------------------------------------------------------- equality
static bool optd(const std::optional<double>& a, const std::optional<double>& b) { return a.has_value() == b.has_value() && (!a || B(*a) == B(*b)); }
static void eq(const beat_data& x, const beat_data& y)
{
    EQ(optd(x.sample_rate, y.sample_rate) && optd(x.sample_count, y.sample_count), "v1 beat_data sample rate / count");
    for (int g = 0; g < 2; ++g)
    {
        auto& a = g ? x.adjusted_beatgrid : x.default_beatgrid; auto& b = g ? y.adjusted_beatgrid : y.default_beatgrid;
        EQ(a.size() == b.size(), "v1 beat grid size");
        for (size_t i = 0; i < a.size() && i < b.size(); ++i) EQ(a[i].index == b[i].index && B(a[i].sample_offset) == B(b[i].sample_offset), "v1 beat grid marker");
    }
}
static void eqw(const std::vector<waveform_entry>& a, const std::vector<waveform_entry>& b, bool opacity)
{
    EQ(a.size() == b.size(), "v1 waveform size");
    for (size_t i = 0; i < a.size() && i < b.size(); ++i)
    {
        EQ(a[i].low.value == b[i].low.value && a[i].mid.value == b[i].mid.value && a[i].high.value == b[i].high.value, "v1 waveform values");
        EQ(a[i].low.opacity == b[i].low.opacity && a[i].mid.opacity == b[i].mid.opacity && a[i].high.opacity == b[i].high.opacity, "v1 waveform opacity");
    }
}
static void eq(const high_res_waveform_data& x, const high_res_waveform_data& y) { EQ(B(x.samples_per_entry) == B(y.samples_per_entry), "v1 high-res samples per entry"); eqw(x.waveform, y.waveform, true); }
static void eq(const overview_waveform_data& x, const overview_waveform_data& y) { EQ(B(x.samples_per_entry) == B(y.samples_per_entry), "v1 overview samples per entry"); eqw(x.waveform, y.waveform, false); }
static void eq(const loops_data& x, const loops_data& y)
{
    EQ(x.loops.size() == y.loops.size(), "v1 loop count");
    for (size_t i = 0; i < x.loops.size() && i < y.loops.size(); ++i)
    {
        auto &a = x.loops[i], &b = y.loops[i];
        if (!a) { EQ(!b, "v1 absent loop reads back present"); continue; }
        if (!b) { EQ(a->start_sample_offset == -1, "v1 loop reads back absent although its start offset is not the reserved -1"); continue; }
        EQ(same_str(a->label, b->label), "v1 loop label");
        EQ(B(a->start_sample_offset) == B(b->start_sample_offset) && B(a->end_sample_offset) == B(b->end_sample_offset) && a->color == b->color, "v1 loop offsets/colour");
    }
}
static void eq(const quick_cues_data& x, const quick_cues_data& y)
{
    EQ(x.hot_cues.size() == y.hot_cues.size(), "v1 hot cue count");
    for (size_t i = 0; i < x.hot_cues.size() && i < y.hot_cues.size(); ++i)
    {
        auto &a = x.hot_cues[i], &b = y.hot_cues[i];
        if (!a) { EQ(!b, "v1 absent hot cue reads back present"); continue; }
        if (!b) { EQ(a->sample_offset == -1, "v1 hot cue reads back absent although its offset is not the reserved -1"); continue; }
        EQ(same_str(a->label, b->label), "v1 hot cue label");
        EQ(B(a->sample_offset) == B(b->sample_offset) && a->color == b->color, "v1 hot cue offset/colour");
    }
    EQ(B(x.adjusted_main_cue) == B(y.adjusted_main_cue) && B(x.default_main_cue) == B(y.default_main_cue), "v1 main cue");
}
static void eq(const track_data& x, const track_data& y)
{
    EQ(optd(x.sample_rate, y.sample_rate) && optd(x.average_loudness, y.average_loudness), "v1 track_data rate / loudness");
    EQ(x.sample_count == y.sample_count, "v1 track_data sample count");
    EQ(x.key.has_value() == y.key.has_value() && (!x.key || *x.key == *y.key), "v1 track_data key");
}

// ---------------------------------------------------------------- reference layout
static void be64(ref_t& o, uint64_t v) { for (int i = 7; i >= 0; --i) o.push_back((uint8_t)(v >> (8 * i))); }
static void le64(ref_t& o, uint64_t v) { for (int i = 0; i < 8; ++i) o.push_back((uint8_t)(v >> (8 * i))); }
static void be32(ref_t& o, uint32_t v) { for (int i = 3; i >= 0; --i) o.push_back((uint8_t)(v >> (8 * i))); }
static void le32(ref_t& o, uint32_t v) { for (int i = 0; i < 4; ++i) o.push_back((uint8_t)(v >> (8 * i))); }
static void str(ref_t& o, const std::string& s) { o.push_back((uint8_t)s.size()); for (auto c : s) o.push_back((uint8_t)c); }
static uint8_t mx(uint8_t a, uint8_t b) { return a > b ? a : b; }
static ref_t ref(const beat_data& x)
{
    ref_t o; be64(o, x.sample_rate ? B(*x.sample_rate) : 0); be64(o, x.sample_count ? B(*x.sample_count) : 0); o.push_back(1);
    for (int g = 0; g < 2; ++g)
    {
        auto& a = g ? x.adjusted_beatgrid : x.default_beatgrid;
        be64(o, a.size());
        for (size_t i = 0; i < a.size(); ++i)
        {
            le64(o, B(a[i].sample_offset)); le64(o, (uint64_t)(int64_t)a[i].index);
            le32(o, i + 1 < a.size() ? (uint32_t)((int64_t)a[i + 1].index - a[i].index) : 0); le32(o, 0);
        }
    }
    return o;
}
static ref_t ref(const high_res_waveform_data& x)
{
    ref_t o; be64(o, x.waveform.size()); be64(o, x.waveform.size()); be64(o, B(x.samples_per_entry));
    uint8_t m[6] = {0, 0, 0, 0, 0, 0};
    for (auto& e : x.waveform)
    {
        uint8_t v[6] = {e.low.value, e.mid.value, e.high.value, e.low.opacity, e.mid.opacity, e.high.opacity};
        for (int i = 0; i < 6; ++i) { o.push_back(v[i]); m[i] = mx(m[i], v[i]); }
    }
    for (int i = 0; i < 6; ++i) o.push_back(m[i]);
    return o;
}
static ref_t ref(const overview_waveform_data& x)
{
    ref_t o; be64(o, x.waveform.size()); be64(o, x.waveform.size()); be64(o, B(x.samples_per_entry));
    uint8_t m[3] = {0, 0, 0};
    for (auto& e : x.waveform)
    {
        uint8_t v[3] = {e.low.value, e.mid.value, e.high.value};
        for (int i = 0; i < 3; ++i) { o.push_back(v[i]); m[i] = mx(m[i], v[i]); }
    }
    for (int i = 0; i < 3; ++i) o.push_back(m[i]);
    return o;
}
static const uint64_t MINUS1 = 0xBFF0000000000000ull;   // -1.0
static ref_t ref(const loops_data& x)
{
    ref_t o; le64(o, x.loops.size());
    for (auto& l : x.loops)
    {
        if (l) { str(o, l->label); le64(o, B(l->start_sample_offset)); le64(o, B(l->end_sample_offset)); o.push_back(1); o.push_back(1); o.push_back(l->color.a); o.push_back(l->color.r); o.push_back(l->color.g); o.push_back(l->color.b); }
        else { o.push_back(0); le64(o, MINUS1); le64(o, MINUS1); for (int i = 0; i < 6; ++i) o.push_back(0); }
    }
    return o;
}
static ref_t ref(const quick_cues_data& x)
{
    ref_t o; be64(o, x.hot_cues.size());
    for (auto& c : x.hot_cues)
    {
        if (c) { str(o, c->label); be64(o, B(c->sample_offset)); o.push_back(c->color.a); o.push_back(c->color.r); o.push_back(c->color.g); o.push_back(c->color.b); }
        else { o.push_back(0); be64(o, MINUS1); for (int i = 0; i < 4; ++i) o.push_back(0); }
    }
    be64(o, B(x.adjusted_main_cue)); o.push_back(x.adjusted_main_cue == x.default_main_cue ? 0 : 1); be64(o, B(x.default_main_cue));
    return o;
}
static ref_t ref(const track_data& x)
{
    ref_t o; be64(o, x.sample_rate ? B(*x.sample_rate) : 0); be64(o, x.sample_count ? (uint64_t)*x.sample_count : 0);
    be64(o, x.average_loudness ? B(*x.average_loudness) : 0); be32(o, x.key ? (uint32_t)*x.key : 0);
    return o;
}
template <typename T> struct framed { static constexpr bool value = !std::is_same_v<T, loops_data>; };
template <typename T> static bytes_t payload_of(const bytes_t& blob) { if constexpr (framed<T>::value) return zlib_uncompress(blob); else return blob; }
template <typename T> static bytes_t blob_of(const bytes_t& payload) { if constexpr (framed<T>::value) return zlib_compress(payload); else return payload; }
static bytes_t to_bytes(const ref_t& r) { bytes_t b(r.size()); for (size_t i = 0; i < r.size(); ++i) b[i] = (std::byte)r[i]; return b; }

template <typename T> static void roundtrip(T (*make)())
{
    T x = make();
    bytes_t blob;
    try { blob = x.encode(); }
    catch (const std::exception&) { verif_reach("encode-rejected"); return; }
    verif_reach("encoded");
    try
    {
        T y = T::decode(blob);
        verif_reach("decoded");
        eq(x, y);
    }
    catch (const std::exception&) { verif_fail("C03: the library wrote a 1.x blob that it cannot decode"); }
}
template <typename T> static void ref_encode(T (*make)())
{
    T x = make();
    bytes_t blob;
    try { blob = x.encode(); }
    catch (const std::exception&) { verif_reach("encode-rejected"); return; }
    bytes_t payload = payload_of<T>(blob);
    verif_reach("encoded");
    EQ(same_bytes(payload, to_bytes(ref(x))), "C02: encode() payload differs from the reference Engine layout");
}
template <typename T> static void ref_decode(T (*make)())
{
    T x = make();
    bytes_t blob = blob_of<T>(to_bytes(ref(x)));
    try
    {
        T y = T::decode(blob);
        verif_reach("decoded");
        eq(x, y);
    }
    catch (const std::exception&) { verif_reach("decode-rejected"); verif_fail("C02: decode() rejects a blob produced by the reference encoder"); }
}
#define ENTRIES(name, T, make) \
    extern "C" void h_rt1_##name() { roundtrip<T>(make); } \
    extern "C" void h_refenc1_##name() { ref_encode<T>(make); } \
    extern "C" void h_refdec1_##name() { ref_decode<T>(make); }
ENTRIES(beat_data, beat_data, sym_beat)
ENTRIES(high_res, high_res_waveform_data, sym_highres)
ENTRIES(overview, overview_waveform_data, sym_overview)
ENTRIES(loops, loops_data, sym_loops)
ENTRIES(quick_cues, quick_cues_data, sym_cues)
ENTRIES(track_data, track_data, sym_track)
