// C01 / C06 (schema 2.x): track data written through a snapshot / a setter reads back as the statement says.
// Real database_impl::create_track, track_impl::update/snapshot/setters/getters, convert::read/write, the five codecs,
// track_table and sqlite_modern_cpp over the key/value sqlite3 model.
#include "verif.h"
#include "v2_unity.h"
#include "h_track_common.h"
static void seed_information(v2_fixture& fx)
{
    fx.ctx->db << "INSERT INTO Information (id, uuid, schemaVersionMajor, schemaVersionMinor, schemaVersionPatch, currentPlayedIndiciator, lastRekordBoxLibraryImportReadCounter) VALUES (?, ?, ?, ?, ?, ?, ?)"
               << (int64_t)1 << std::string{"uuid-1"} << (int64_t)2 << (int64_t)21 << (int64_t)2 << (int64_t)0 << (int64_t)0;
}
extern "C" void h_c01()
{
    v2_fixture fx; seed_information(fx);
    djinterop::database db{std::make_shared<v2::database_impl>(fx.lib)};
    run_c01(db);
}
extern "C" void h_c06()
{
    v2_fixture fx; seed_information(fx);
    djinterop::database db{std::make_shared<v2::database_impl>(fx.lib)};
    run_c06(db);
}
