// C08 (schema 2.x): crate membership through the public API over the relational sqlite3 model (symbolic) / the built library and the real SQLite (native replay).
#include "verif.h"
extern "C" uint64_t verif_param(const char*);
#ifdef VERIF_NATIVE
#include <djinterop/djinterop.hpp>
#include <optional>
#include <stdexcept>
#include <string>
#include "h_members.h"
static djinterop::engine::engine_schema native_schema()
{
    using djinterop::engine::engine_schema;
    static const engine_schema v[] = {engine_schema::schema_2_18_0, engine_schema::schema_2_20_1, engine_schema::schema_2_20_2, engine_schema::schema_2_20_3,
                                      engine_schema::schema_2_21_0, engine_schema::schema_2_21_1, engine_schema::schema_2_21_2};
    return v[verif_param("schema") > 6 ? 6 : verif_param("schema")];
}
extern "C" void h_members()
{
    auto db = djinterop::engine::create_temporary_database(native_schema());
    run_members(db);
}
#else
#include "v2_unity.h"
#include "h_members.h"
extern "C" void h_members()
{
    v2_fixture fx;
    fx.ctx->db << "INSERT INTO Information (id, uuid, schemaVersionMajor, schemaVersionMinor, schemaVersionPatch, currentPlayedIndiciator, lastRekordBoxLibraryImportReadCounter) VALUES (?, ?, ?, ?, ?, ?, ?)"
               << (int64_t)1 << std::string{"uuid-1"} << (int64_t)2 << (int64_t)21 << (int64_t)2 << (int64_t)0 << (int64_t)0;
    djinterop::database db{std::make_shared<v2::database_impl>(fx.lib)};
    run_members(db);
}
#endif
