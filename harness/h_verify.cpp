// C17: verify() vs a catalog with one structural deviation.  The real verify() of every schema version (schema/*.cpp,
// schema_validate_utils.hpp, sqlite_modern_cpp row extraction, std::set ordering) runs over a catalog model of the sqlite3 API
// whose answers are the catalog the real SQLite produces from the DDL of the same version's creator, with at most one deviation.
#include "verif.h"
#include "/repo/src/djinterop/engine/schema/schema.cpp"
#include "/repo/src/djinterop/engine/schema/schema_1_11_1.cpp"
#include "/repo/src/djinterop/engine/schema/schema_1_13_0.cpp"
#include "/repo/src/djinterop/engine/schema/schema_1_13_1.cpp"
#include "/repo/src/djinterop/engine/schema/schema_1_13_2.cpp"
#include "/repo/src/djinterop/engine/schema/schema_1_15_0.cpp"
#include "/repo/src/djinterop/engine/schema/schema_1_17_0.cpp"
#include "/repo/src/djinterop/engine/schema/schema_1_18_0_desktop.cpp"
#include "/repo/src/djinterop/engine/schema/schema_1_18_0_os.cpp"
#include "/repo/src/djinterop/engine/schema/schema_1_6_0.cpp"
#include "/repo/src/djinterop/engine/schema/schema_1_7_1.cpp"
#include "/repo/src/djinterop/engine/schema/schema_1_9_1.cpp"
#include "/repo/src/djinterop/engine/schema/schema_2_18_0.cpp"
#include "/repo/src/djinterop/engine/schema/schema_2_20_1.cpp"
#include "/repo/src/djinterop/engine/schema/schema_2_20_2.cpp"
#include "/repo/src/djinterop/engine/schema/schema_2_20_3.cpp"
#include "/repo/src/djinterop/engine/schema/schema_2_21_0.cpp"
#include "/repo/src/djinterop/engine/schema/schema_2_21_1.cpp"
#include "/repo/src/djinterop/engine/schema/schema_2_21_2.cpp"
#include "/repo/src/djinterop/engine/schema/schema_3_0_0.cpp"
using namespace djinterop;
using namespace djinterop::engine;
extern "C" uint64_t verif_param(const char*);
extern "C" int32_t verif_deviated();     // catalog model: 1 iff the catalog answered on this path differs from the created one (symbolic: "replacement != original")
extern "C" void h_verify()
{
    auto s = static_cast<engine_schema>(verif_param("schema_enum"));
    sqlite::database db{":memory:"};
    auto v = schema::make_schema_creator_validator(s);
    int res = 0;
    try
    {
        v->verify(db);
        res = 1;
        verif_reach("accepted");
    }
    catch (const database_inconsistency&)
    {
        res = 2;
        verif_reach("rejected");
    }
    int dev = verif_deviated();
    if (dev) verif_reach("deviation");
    else verif_reach("no-deviation");
    verif_assert(!(res == 1 && dev != 0), "V1: verify() accepted a catalog with a structural deviation from the declared schema");
    verif_assert(!(res == 2 && dev == 0), "V2: verify() rejected the catalog of a library created by this version");
}
