// h_api_ops.h - the public operations of djinterop::database / crate / track, one per run (run parameter "op"), shared by
// the schema-1.x and schema-2.x API harnesses (the public wrappers are the same; only the implementation objects differ).
#pragma once
extern "C" void verif_op_done(int threw);      // end-of-call hook: the model-side oracle of the property looks at the statement log here
typedef std::chrono::system_clock::time_point tp_t;

static std::string S(const char* n) { std::string s(2, 'a'); verif_bytes(s.data(), 1, n); return s; }
static std::optional<std::string> OS(const char* n) { return S(n); }
// "sane" doubles for this harness: integer-valued, 0 .. 2^20 (extreme arguments are the subject of the C15 harness)
// run parameter "xd" (C15, "whatever its arguments"): EVERY double bit pattern instead - NaN, infinities, subnormals, values beyond any integer range
static double D(const char* n) { if (verif_param("xd")) return verif::f64(n); return (double)verif_range_u32(0, 1u << 20, n); }
static double DX(const char* n, double sane) { if (verif_param("xd")) return verif::f64(n); return sane; }
static hot_cue a_cue() { hot_cue c; c.label = S("cue.label"); c.sample_offset = D("cue.offset"); c.color = pad_color{verif_u8("r"), verif_u8("g"), verif_u8("b"), verif_u8("a")}; return c; }
static loop a_loop() { loop l; l.label = S("loop.label"); l.start_sample_offset = D("loop.start"); l.end_sample_offset = D("loop.end"); l.color = pad_color{verif_u8("r"), verif_u8("g"), verif_u8("b"), verif_u8("a")}; return l; }
static track_snapshot a_snapshot()
{
    track_snapshot s;
    s.album = OS("album"); s.artist = OS("artist"); s.average_loudness = D("loudness");
    beatgrid_marker m0; m0.index = 0; m0.sample_offset = 0; beatgrid_marker m1; m1.index = 8; m1.sample_offset = 176400; s.beatgrid = {m0, m1};
    s.bitrate = verif::i32("bitrate"); s.bpm = DX("bpm", 120.0); s.comment = OS("comment"); s.composer = OS("composer");
    s.duration = std::chrono::milliseconds{(int64_t)verif_range_u64(0, 1ull << 40, "duration_ms")}; s.file_bytes = verif_u64("file_bytes"); s.genre = OS("genre");
    s.hot_cues = {a_cue(), std::nullopt}; s.key = musical_key::a_minor;
    s.last_played_at = tp_t{std::chrono::seconds{(int64_t)verif_range_u64(0, 1ull << 32, "last_played")}};
    s.loops = {std::nullopt, a_loop()}; s.main_cue = D("main_cue"); s.publisher = OS("publisher"); s.rating = verif::i32("rating");
    s.relative_path = std::string{"a/b.mp3"}; s.sample_count = verif_range_u64(1, 1ull << 40, "sample_count"); s.sample_rate = DX("sample_rate", 44100.0);
    s.title = OS("title"); s.track_number = verif::i32("track_number"); s.year = verif::i32("year");
    waveform_entry w; w.low.value = verif_u8("w"); s.waveform = {w, w};
    return s;
}


static int run_op(djinterop::database& db, djinterop::track& t, djinterop::crate& c, djinterop::crate& c2, int64_t tid, int64_t cid)
{
    // slot index: 0..7 normally; with the "wide" run parameter every int from -1 to 9 (one before the first, two past the last slot)
    int idx = verif_param("wide") ? (int)verif_range_u32(0, 10, "slot+1") - 1 : (int)verif_range_u32(0, 7, "slot");
    uint64_t op = verif_param("op");
    int threw = 0;
    verif_reach("call");
    try
    {
        switch (op)
        {
            // ---- observers
            case 0: t.snapshot(); break;            case 1: t.album(); break;            case 2: t.artist(); break;
            case 3: t.average_loudness(); break;    case 4: t.beatgrid(); break;         case 5: t.bitrate(); break;
            case 6: t.bpm(); break;                 case 7: t.comment(); break;          case 8: t.composer(); break;
            case 9: t.containing_crates(); break;   case 10: t.duration(); break;        case 11: t.file_extension(); break;
            case 12: t.filename(); break;           case 13: t.genre(); break;           case 14: t.hot_cue_at(idx); break;
            case 15: t.hot_cues(); break;           case 16: t.is_valid(); break;        case 17: t.key(); break;
            case 18: t.last_played_at(); break;     case 19: t.loop_at(idx); break;      case 20: t.loops(); break;
            case 21: t.main_cue(); break;           case 22: t.publisher(); break;       case 23: t.rating(); break;
            case 24: t.relative_path(); break;      case 25: t.sample_count(); break;    case 26: t.sample_rate(); break;
            case 27: t.title(); break;              case 28: t.track_number(); break;    case 29: t.waveform(); break;
            case 30: t.year(); break;               case 31: t.id(); break;
            case 40: c.children(); break;           case 41: c.descendants(); break;     case 42: c.is_valid(); break;
            case 43: c.name(); break;               case 44: c.parent(); break;          case 45: c.sub_crate_by_name(S("name")); break;
            case 46: c.tracks(); break;             case 47: c.id(); break;
            case 50: db.crates(); break;            case 51: db.crate_by_id(cid); break; case 52: db.crates_by_name(S("name")); break;
            case 53: db.root_crates(); break;       case 54: db.root_crate_by_name(S("name")); break; case 55: db.tracks(); break;
            case 56: db.track_by_id(tid); break;    case 57: db.tracks_by_relative_path(S("path")); break; case 58: db.uuid(); break;
            case 59: db.version_name(); break;      case 60: db.directory(); break;
            // ---- mutators
            case 100: t.set_album(OS("v")); break;                 case 101: t.set_artist(OS("v")); break;
            case 102: t.set_average_loudness(D("v")); break;
            case 103: { beatgrid_marker m0; m0.index = 0; m0.sample_offset = 0; beatgrid_marker m1; m1.index = 4; m1.sample_offset = DX("offset1", 88200); t.set_beatgrid({m0, m1}); break; }
            case 104: t.set_bitrate(verif::i32("v")); break;        case 105: t.set_bpm(D("v")); break;
            case 106: t.set_comment(OS("v")); break;                case 107: t.set_composer(OS("v")); break;
            case 108: t.set_duration(std::chrono::milliseconds{(int64_t)verif_range_u64(0, 1ull << 40, "v")}); break;
            case 109: t.set_genre(OS("v")); break;                  case 110: t.set_hot_cue_at(idx, a_cue()); break;
            case 111:
            {
                std::vector<std::optional<hot_cue>> cs;
                for (uint64_t i = 0; i < (verif_param("wide") ? verif_param("count") : 3); ++i) { if (i % 2) cs.push_back(std::nullopt); else cs.push_back(a_cue()); }
                t.set_hot_cues(cs); break;
            }
            case 112: t.set_key(musical_key::d_minor); break;       case 113: t.set_last_played_at(tp_t{std::chrono::seconds{(int64_t)verif_range_u64(0, 1ull << 32, "v")}}); break;
            case 114: t.set_loop_at(idx, a_loop()); break;          case 115: t.set_loops({a_loop(), std::nullopt}); break;
            case 116: t.set_main_cue(D("v")); break;       case 117: t.set_publisher(OS("v")); break;
            case 118: t.set_rating(verif::i32("v")); break;         case 119: t.set_relative_path(std::string{"x/y.flac"}); break;
            case 120: t.set_sample_count(verif_range_u64(1, 1ull << 40, "v")); break;
            case 121: t.set_sample_rate(DX("v", 48000.0)); break;            case 122: t.set_title(OS("v")); break;
            case 123: t.set_track_number(verif::i32("v")); break;
            case 124: { waveform_entry w; w.low.value = verif_u8("w"); t.set_waveform({w, w, w}); break; }
            case 125: t.set_year(verif::i32("v")); break;           case 126: t.update(a_snapshot()); break;
            case 140: c.add_track(t); break;                        case 141: c.add_track(tid); break;
            case 142: c.clear_tracks(); break;                      case 143: c.create_sub_crate(S("name")); break;
            case 144: c.create_sub_crate_after(S("name"), c2); break; case 145: c.remove_track(t); break;
            case 146: c.set_name(S("name")); break;                 case 147: c.set_parent(c2); break;
            case 148: c.set_parent(std::nullopt); break;
            case 150: db.create_root_crate(S("name")); break;       case 151: db.create_root_crate_after(S("name"), c2); break;
            case 152: db.create_track(a_snapshot()); break;         case 153: db.remove_crate(c); break;
            case 154: db.remove_track(t); break;
            default: verif_fail("unknown op");
        }
    }
    catch (const std::exception&) { threw = 1; }
    return threw;
}
