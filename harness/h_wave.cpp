// C19: recommended waveform extents.  The obligations are stated here with exact (128-bit) integer arithmetic
// against an independent characterisation of floor(rate); lsx turns each verif_assert into a solver query.
#include "verif.h"
#include <djinterop/performance_data.hpp>
#include "/repo/src/djinterop/engine/track_utils.hpp"
#include "/repo/src/djinterop/engine/engine.cpp"
using namespace djinterop;
typedef unsigned __int128 u128;

struct dom
{
    uint64_t n;
    double rate;
    uint64_t fr;   // floor(rate), characterised independently of the implementation's cast
    uint64_t qn;   // reference quantisation number 2 * floor(floor(rate) / 210)
};
static dom domain(const char* nn)
{
    dom d;
    d.n = verif_u64(nn);
    d.rate = verif::f64("rate");
    verif_assume(d.n <= (1ull << 62));
    verif_assume(d.rate >= 0.0 && d.rate <= 2147483648.0);   // finite, [0, 2^31]; NaN excluded by the comparisons
    // Lemma (proved for every rate in the domain by h_floor below, in z3's floating-point theory): the cast is
    // in range and equals floor(rate), i.e. the unique integer fr with fr <= rate < fr + 1, and 0 <= fr <= 2^31.
    d.fr = (uint64_t)(int64_t)d.rate;
    verif_assume(d.fr <= (1ull << 31));
    d.qn = 2 * (d.fr / 210);
    return d;
}
extern "C" void h_floor()
{
    double rate = verif::f64("rate");
    verif_assume(rate >= 0.0 && rate <= 2147483648.0);
    uint64_t fr = verif_u64("floor_rate");             // independent characterisation of floor(rate)
    verif_assume(fr <= (1ull << 31));
    verif_assume((double)fr <= rate && rate < (double)fr + 1.0);   // both conversions exact: fr < 2^53
    verif_reach("computed");
    verif_assert((uint64_t)(int64_t)rate == fr, "U1/L1: (int64_t)rate is defined and equals floor(rate) on the domain");
    verif_assert((uint64_t)engine::util::waveform_quantisation_number(rate) == 2 * (fr / 210), "L2: quantisation number == 2*floor(floor(rate)/210)");
}

extern "C" void h_highres()
{
    dom d = domain("n");
    auto e = engine::util::calculate_high_resolution_waveform_extents(d.n, d.rate);
    verif_reach("computed");
    bool empty = (d.n == 0 || d.qn == 0);
    if (empty)
    {
        verif_assert(e.size == 0, "H1: high-res extents empty when n == 0 or qn == 0");
        verif_assert(verif::bits(e.samples_per_entry) == 0, "H1: samples_per_entry is +0.0 when empty");
    }
    else
    {
        verif_assert(e.size != 0, "H1: high-res extents non-empty otherwise");
        verif_assert((u128)e.size * d.qn >= d.n, "H2: size * qn covers the track");
        verif_assert((u128)(e.size - 1) * d.qn < d.n, "H2: minimal cover (less than one entry of slack)");
        verif_assert(verif::bits(e.samples_per_entry) == verif::bits((double)d.qn), "H2: samples_per_entry == qn exactly");
        verif_assert((u128)d.n + d.qn - 1 < ((u128)1 << 64), "H3: n + qn - 1 does not wrap");
    }
}
extern "C" void h_overview()
{
    dom d = domain("n");
    auto e = engine::util::calculate_overview_waveform_extents(d.n, d.rate);
    verif_reach("computed");
    bool empty = (d.n == 0 || d.qn == 0);
    if (empty)
    {
        verif_assert(e.size == 0, "O1: overview extents empty when n == 0 or qn == 0");
        verif_assert(verif::bits(e.samples_per_entry) == 0, "O1: samples_per_entry is +0.0 when empty");
    }
    else
    {
        verif_assert(e.size == 1024, "O2: overview has exactly 1024 entries");
        uint64_t rounded = d.n - d.n % d.qn;   // sample count rounded down to the quantisation number
        verif_assert(verif::bits(e.samples_per_entry) == verif::bits((double)rounded / 1024), "O2: span is rounded sample count / 1024");
    }
}
extern "C" void h_monotone()
{
    dom d = domain("n1");
    uint64_t n2 = verif_u64("n2");
    verif_assume(n2 <= (1ull << 62) && d.n <= n2);
    auto a = engine::util::calculate_high_resolution_waveform_extents(d.n, d.rate);
    auto b = engine::util::calculate_high_resolution_waveform_extents(n2, d.rate);
    auto oa = engine::util::calculate_overview_waveform_extents(d.n, d.rate);
    auto ob = engine::util::calculate_overview_waveform_extents(n2, d.rate);
    verif_reach("computed");
    verif_assert(a.size <= b.size, "M1: high-res size monotone in the sample count");
    verif_assert(oa.size <= ob.size, "M2: overview size monotone in the sample count");
}
// the public entry points must be the same functions (engine.cpp forwards to track_utils.hpp)
extern "C" void h_public()
{
    dom d = domain("n");
    auto a = engine::util::calculate_high_resolution_waveform_extents(d.n, d.rate);
    auto b = engine::calculate_high_resolution_waveform_extents(d.n, d.rate);
    auto oa = engine::util::calculate_overview_waveform_extents(d.n, d.rate);
    auto ob = engine::calculate_overview_waveform_extents(d.n, d.rate);
    verif_reach("computed");
    verif_assert(a.size == b.size && verif::bits(a.samples_per_entry) == verif::bits(b.samples_per_entry), "P1: public high-res entry point forwards unchanged");
    verif_assert(oa.size == ob.size && verif::bits(oa.samples_per_entry) == verif::bits(ob.samples_per_entry), "P2: public overview entry point forwards unchanged");
}
