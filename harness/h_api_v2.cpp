// C14 / C16 / C15(glue): every public operation of the schema-2.x implementation, one per run (run parameter "op"),
// executed from the public djinterop::database / crate / track wrappers down through track_impl / crate_impl /
// database_impl / *_table / sqlite_transaction / sqlite_modern_cpp to the abstract sqlite3 model.
#include "verif.h"
#include "v2_unity.h"
#include "h_api_ops.h"

extern "C" void h_op()
{
    v2_fixture fx;
    auto dbi = std::make_shared<v2::database_impl>(fx.lib);
    djinterop::database db{dbi};
    int64_t tid = verif::i64("track_id"), cid = verif::i64("crate_id"), cid2 = verif::i64("other_crate_id");
    djinterop::track t{std::make_shared<v2::track_impl>(fx.lib, tid)};
    djinterop::crate c{std::make_shared<v2::crate_impl>(fx.lib, cid)};
    djinterop::crate c2{std::make_shared<v2::crate_impl>(fx.lib, cid2)};
    int threw = run_op(db, t, c, c2, tid, cid);
    verif_op_done(threw);
    verif_reach("done");
}
