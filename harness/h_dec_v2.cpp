// C05/C04: schema-2.x decoders on arbitrary payload bytes (identity zlib framing under lsx)
#include "verif.h"
#include "/repo/src/djinterop/engine/v2/beat_data_blob.cpp"
#include "/repo/src/djinterop/engine/v2/quick_cues_blob.cpp"
#include "/repo/src/djinterop/engine/v2/loops_blob.cpp"
#include "/repo/src/djinterop/engine/v2/overview_waveform_data_blob.cpp"
#include "/repo/src/djinterop/engine/v2/track_data_blob.cpp"
using namespace djinterop::engine;
using namespace djinterop::engine::v2;
extern "C" uint64_t verif_len();   // payload length (concrete per run)

template <typename B> static std::vector<std::byte> frame(const std::vector<std::byte>& payload)
{
    if constexpr (std::is_same_v<B, loops_blob>) return payload;   // loops are stored uncompressed
    else return zlib_compress(payload);
}
template <typename B> static void dec_only()
{
    auto payload = verif::bytes(verif_len(), "p");
    auto blob = frame<B>(payload);
    try
    {
        auto b = B::from_blob(blob);
        verif_reach("decoded");
    }
    catch (const std::exception&)
    {
        verif_reach("rejected");
    }
}
extern "C" void h_dec_beat_data() { dec_only<beat_data_blob>(); }
extern "C" void h_dec_quick_cues() { dec_only<quick_cues_blob>(); }
extern "C" void h_dec_loops() { dec_only<loops_blob>(); }
extern "C" void h_dec_overview() { dec_only<overview_waveform_data_blob>(); }
extern "C" void h_dec_track_data() { dec_only<track_data_blob>(); }
