// h_members.h - C08 (and the entry-order clause of C09) harness body, public API only, shared by both schema generations.
// A concrete prefix of operations (run parameters "prefix"/"prefix2": creates crates and tracks in an order that makes track ids, crate ids
// and membership-row ids diverge) followed by "nsym" operations whose kind and operands are symbolic.  After every operation crate.tracks()
// of every live crate is compared with the reference membership relation (ordered: entries are listed in the order they were added), and
// track.containing_crates() (where the generation supports it) with its converse.
#pragma once
#include <algorithm>
struct members_model
{
    std::vector<char> crate_alive, track_alive;      // (not vector<bool>: its bit packing reads uninitialised words)
    std::vector<int> crate_parent;
    std::vector<std::vector<int>> in;          // in[c] = tracks of crate c in the order they were added
};
#define CK(c, msg) verif_assert((c), msg)
static int pick(int n, const char* what)
{
    uint32_t v = verif_range_u32(0, (uint32_t)(n - 1), what);
    for (int i = 0; i < n - 1; ++i) if (v == (uint32_t)i) return i;
    return n - 1;
}
static void check_members(djinterop::database& db, members_model& m, std::vector<djinterop::crate>& hc, std::vector<djinterop::track>& ht)
{
    for (size_t c = 0; c < hc.size(); ++c)
    {
        if (!m.crate_alive[c]) continue;       // (stale handles are judged last, see below)
        auto ts = hc[c].tracks();
        CK(ts.size() == m.in[c].size(), "C08: crate.tracks() is not exactly the tracks added and not removed (count)");
        for (size_t i = 0; i < m.in[c].size(); ++i)
        {
            int cnt = 0; for (auto& t : ts) cnt += t.id() == ht[m.in[c][i]].id();
            CK(cnt == 1, "C08: a track that was added and not removed is missing from crate.tracks(), or listed twice");
        }
        for (auto& t : ts) CK(t.is_valid(), "C08: crate.tracks() lists a removed track");
        bool ordered = ts.size() == m.in[c].size();
        for (size_t i = 0; ordered && i < ts.size(); ++i) ordered = ts[i].id() == ht[m.in[c][i]].id();
        if (verif_param("gen") == 2) CK(ordered, "C09: playlist entries are not listed in the order they were added");
    }
    for (size_t t = 0; t < ht.size(); ++t)
    {
        if (!m.track_alive[t]) continue;
        CK(ht[t].is_valid(), "C08: live track reports !is_valid()");
        std::vector<djinterop::crate> cc; bool supported = true;
        try { cc = ht[t].containing_crates(); } catch (const std::runtime_error&) { supported = false; }
        if (!supported) continue;
        size_t want = 0;
        for (size_t c = 0; c < hc.size(); ++c)
        {
            if (!m.crate_alive[c]) continue;
            bool has = std::find(m.in[c].begin(), m.in[c].end(), (int)t) != m.in[c].end();
            int cnt = 0; for (auto& x : cc) cnt += x.id() == hc[c].id();
            CK(cnt == (has ? 1 : 0), "C08: track.containing_crates() is not the converse of crate.tracks()");
            want += has;
        }
        CK(cc.size() == want, "C08: track.containing_crates() lists a crate that is not live or does not contain the track");
    }
    // stale handles last: where a generation hands the id of a removed crate / track out again (a listed known finding of schema 1.x) the path ends here,
    // AFTER the membership of the crate that inherited the id has been compared (a removal that leaves rows behind shows exactly there: seeded change C08-3)
    for (size_t c = 0; c < hc.size(); ++c)
    {
        if (m.crate_alive[c]) continue;
        if (verif_param("gen") == 1) CK(!hc[c].is_valid(), "C08: schema 1.x: the id of a removed crate was given to a new crate (handle of a removed crate reports is_valid())");
        else CK(!hc[c].is_valid(), "C08: handle of a removed crate reports is_valid()");
    }
    for (size_t t = 0; t < ht.size(); ++t)
    {
        if (m.track_alive[t]) continue;
        if (verif_param("gen") == 1) CK(!ht[t].is_valid(), "C08: schema 1.x: the id of a removed track was given to a new track (handle of a removed track reports is_valid())");
        else CK(!ht[t].is_valid(), "C08: handle of a removed track reports is_valid()");
    }
}
struct mop_t { int kind; int a; int b; };
static void apply_m(djinterop::database& db, members_model& m, std::vector<djinterop::crate>& hc, std::vector<djinterop::track>& ht, const mop_t& o)
{
    const int NC = (int)hc.size(), NT = (int)ht.size();
    bool threw = false;
    auto ca = [&](int c) { return c >= 0 && c < NC && m.crate_alive[c]; };
    auto ta = [&](int t) { return t >= 0 && t < NT && m.track_alive[t]; };
    bool live = true;      // all operands live: the operation must succeed
    try
    {
        switch (o.kind)
        {
            case 0: live = ca(o.a) && ta(o.b); hc[o.a].add_track(ht[o.b]); break;
            case 1: live = ca(o.a) && ta(o.b); hc[o.a].remove_track(ht[o.b]); break;
            case 2: live = ca(o.a); hc[o.a].clear_tracks(); break;
            case 3: live = ta(o.a); db.remove_track(ht[o.a]); break;
            case 4: live = ca(o.a); db.remove_crate(hc[o.a]); break;
            case 5:
            {
                djinterop::track_snapshot s; s.relative_path = std::string{"dir/t"} + std::string(1, (char)('0' + NT)) + std::string{".mp3"};
                ht.push_back(db.create_track(s)); m.track_alive.push_back(true); break;
            }
            case 6: hc.push_back(db.create_root_crate(std::string(1, (char)('a' + NC)))); m.crate_alive.push_back(true); m.crate_parent.push_back(-1); m.in.emplace_back(); break;
            case 7: live = ca(o.a);
                    hc.push_back(hc[o.a].create_sub_crate(std::string(1, (char)('a' + NC)))); m.crate_alive.push_back(true); m.crate_parent.push_back(o.a); m.in.emplace_back(); break;
            default: verif_fail("unknown membership op");
        }
    }
    catch (const std::exception&) { threw = true; }
    verif_note("op", (uint64_t)o.kind); verif_note("live", live); verif_note("threw", threw);
    if (live) CK(!threw, "C08: an operation on live crates and tracks was rejected");
    if (!threw && live)
    {
        switch (o.kind)
        {
            case 0: if (std::find(m.in[o.a].begin(), m.in[o.a].end(), o.b) == m.in[o.a].end()) m.in[o.a].push_back(o.b); break;   // adding a present track is a no-op
            case 1: { auto& v = m.in[o.a]; auto it = std::find(v.begin(), v.end(), o.b); if (it != v.end()) v.erase(it); break; }   // removing an absent one too
            case 2: m.in[o.a].clear(); break;
            case 3: m.track_alive[o.a] = false; for (auto& v : m.in) { auto it = std::find(v.begin(), v.end(), o.a); if (it != v.end()) v.erase(it); } break;
            case 4:
                for (int c = 0; c < NC; ++c)
                {
                    bool sub = false; for (int x = c; x != -1; x = m.crate_parent[x]) if (x == o.a) sub = true;
                    if (sub) { m.crate_alive[c] = false; m.in[c].clear(); }
                }
                break;
            default: break;
        }
    }
    // an operation on a removed crate or track: whether it throws or not, it must leave the relation as it was (checked below)
    verif_hook("raw-tables");      // C11: independent reader of the stored tables (symbolic runs), before the API-level comparison
    check_members(db, m, hc, ht);
}
static void run_members(djinterop::database& db)
{
    members_model m; std::vector<djinterop::crate> hc; std::vector<djinterop::track> ht;
    uint64_t pre[2] = {verif_param("prefix"), verif_param("prefix2")}; int npre = (int)verif_param("npre");      // 16 bits per operation: kind(4) a(4) b(4)
    for (int i = 0; i < npre && i < 8; ++i)
    {
        uint64_t w = (pre[i / 4] >> (16 * (i % 4))) & 0xffff;
        apply_m(db, m, hc, ht, mop_t{(int)(w & 15), (int)((w >> 4) & 15), (int)((w >> 8) & 15)});
    }
    verif_reach("prefix-built");
    int nsym = (int)verif_param("nsym"); uint64_t kinds = verif_param("kinds");
    for (int s = 0; s < nsym; ++s)
    {
        int NC = (int)hc.size(), NT = (int)ht.size(); mop_t o{0, 0, 0};
        int nk = 0, ks[8]; for (int k = 0; k < 8; ++k) if ((kinds >> k) & 1) ks[nk++] = k;
        o.kind = ks[pick(nk, "kind")];
        bool need_c = o.kind == 0 || o.kind == 1 || o.kind == 2 || o.kind == 4 || o.kind == 7, need_t = o.kind == 0 || o.kind == 1 || o.kind == 3;
        if ((need_c && NC == 0) || (need_t && NT == 0)) continue;
        if (o.kind == 3) o.a = pick(NT, "track");
        else { if (need_c) o.a = pick(NC, "crate"); if (need_t) o.b = pick(NT, "track"); }
        apply_m(db, m, hc, ht, o);
    }
    verif_reach("checked");
}
