// native_catalog.cpp - public API only, linked against the library built from /repo's working tree + the real SQLite.
//   native_catalog create <outdir>      creates outdir/<n> for every engine_schema enumerator n the library accepts
//   native_catalog verify <dir>         loads the library in <dir> and calls database::verify(); prints ACCEPTED / REJECTED <what>
#include <cstdio>
#include <cstring>
#include <string>
#include <djinterop/djinterop.hpp>
namespace e = djinterop::engine;
int main(int argc, char** argv)
{
    if (argc < 3) return 2;
    if (!strcmp(argv[1], "create"))
    {
        for (int n = 0; n <= 18; n++)
        {
            std::string dir = std::string(argv[2]) + "/" + std::to_string(n);
            try
            {
                auto db = e::create_database(dir, static_cast<e::engine_schema>(n));
                printf("CREATED %d %s\n", n, e::to_string(static_cast<e::engine_schema>(n)).c_str());
            }
            catch (const std::exception& x) { printf("NOT-CREATED %d %s\n", n, x.what()); }
        }
        return 0;
    }
    if (!strcmp(argv[1], "verify"))
    {
        try
        {
            auto db = e::load_database(argv[2]);
            db.verify();
            printf("ACCEPTED\n");
        }
        catch (const djinterop::database_inconsistency& x) { printf("REJECTED %s\n", x.what()); }
        catch (const std::exception& x) { printf("OTHER %s\n", x.what()); }
        return 0;
    }
    return 2;
}
