// verif.h - harness API shared by the symbolic executor (lsx models these externs) and the native
// replay build (harness/verif_native.cpp implements them by reading recorded values).
#pragma once
#include <cstddef>
#include <cstdint>
#include <cstring>
#include <vector>
extern "C" {
uint8_t verif_u8(const char* name);
uint16_t verif_u16(const char* name);
uint32_t verif_u32(const char* name);
uint64_t verif_u64(const char* name);
void verif_bytes(void* p, size_t n, const char* name);
uint32_t verif_range_u32(uint32_t lo, uint32_t hi, const char* name);   // symbolic value with a declared range
uint64_t verif_range_u64(uint64_t lo, uint64_t hi, const char* name);
void verif_assume(int c);
void verif_assert(int c, const char* msg);
void verif_reach(const char* name);
void verif_note(const char* name, uint64_t v);
void verif_fail(const char* msg);
void verif_hook(const char* name);      // symbolic runs: an executor-side check registered under this name (e.g. an independent reader of the modelled tables); native: no-op
}
namespace verif
{
inline int64_t i64(const char* n) { return (int64_t)verif_u64(n); }
inline int32_t i32(const char* n) { return (int32_t)verif_u32(n); }
inline bool boolean(const char* n) { return (verif_u8(n) & 1) != 0; }
inline double f64(const char* n)
{
    uint64_t b = verif_u64(n);
    double d;
    std::memcpy(&d, &b, 8);
    return d;
}
inline uint64_t bits(double d)
{
    uint64_t b;
    std::memcpy(&b, &d, 8);
    return b;
}
inline std::vector<std::byte> bytes(size_t n, const char* name)
{
    std::vector<std::byte> v(n);
    if (n) verif_bytes(v.data(), n, name);
    return v;
}
// identity framing under lsx (zlib_compress/zlib_uncompress are modelled as 4-byte BE length ++ payload);
// natively these are the real functions.
}  // namespace verif
