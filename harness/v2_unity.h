// v2_unity.h - the schema-2.x half of libdjinterop as one translation unit (real sources, unity include).
// playlist tables first: they say util::sqlite_transaction, which another header's djinterop::engine::util would shadow.
#pragma once
#include "/repo/src/djinterop/engine/v2/playlist_table.cpp"
#include "/repo/src/djinterop/engine/v2/playlist_entity_table.cpp"
#include "/repo/src/djinterop/util/filesystem.cpp"
#include "/repo/src/djinterop/util/chrono.cpp"
#include "/repo/src/djinterop/util/random.cpp"
#include "/repo/src/djinterop/impl/database_impl.cpp"
#include "/repo/src/djinterop/impl/crate_impl.cpp"
#include "/repo/src/djinterop/impl/track_impl.cpp"
#include "/repo/src/djinterop/database.cpp"
#include "/repo/src/djinterop/crate.cpp"
#include "/repo/src/djinterop/track.cpp"
#include "/repo/src/djinterop/engine/engine_library_dir_utils.cpp"
#include "/repo/src/djinterop/engine/base_engine_library.cpp"
#include "/repo/src/djinterop/engine/v2/engine_library.cpp"
#include "/repo/src/djinterop/engine/v2/database_impl.cpp"
#include "/repo/src/djinterop/engine/v2/crate_impl.cpp"
#include "/repo/src/djinterop/engine/v2/track_impl.cpp"
#include "/repo/src/djinterop/engine/v2/track_table.cpp"
#include "/repo/src/djinterop/engine/v2/information_table.cpp"
#include "/repo/src/djinterop/engine/v2/change_log_table.cpp"
#include "/repo/src/djinterop/engine/v2/beat_data_blob.cpp"
#include "/repo/src/djinterop/engine/v2/quick_cues_blob.cpp"
#include "/repo/src/djinterop/engine/v2/loops_blob.cpp"
#include "/repo/src/djinterop/engine/v2/overview_waveform_data_blob.cpp"
#include "/repo/src/djinterop/engine/v2/track_data_blob.cpp"
using namespace djinterop;
using namespace djinterop::engine;
using namespace djinterop::engine::v2;
extern "C" uint64_t verif_param(const char*);

static engine_schema schema_param()
{
    switch (verif_param("schema"))
    {
        case 0: return engine_schema::schema_2_18_0;
        case 1: return engine_schema::schema_2_20_1;
        case 2: return engine_schema::schema_2_20_2;
        case 3: return engine_schema::schema_2_20_3;
        case 4: return engine_schema::schema_2_21_0;
        case 5: return engine_schema::schema_2_21_1;
        default: return engine_schema::schema_2_21_2;
    }
}
struct v2_fixture
{
    sqlite::database db{":memory:"};
    std::shared_ptr<engine_library_context> ctx = std::make_shared<engine_library_context>("dir", true, schema_param(), db);
    std::shared_ptr<engine_library> lib = std::make_shared<engine_library>(ctx);
};
