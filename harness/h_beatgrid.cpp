// C20: engine::normalize_beatgrid.  Structural clauses for all finite doubles; arithmetic clauses (bracketing,
// tempo, idempotence) on the exact-arithmetic domain (integer-valued offsets, integer samples-per-beat).
#include "verif.h"
#include "/repo/src/djinterop/engine/engine.cpp"
using namespace djinterop;
extern "C" uint64_t verif_param(const char*);
static uint64_t B(double d) { return verif::bits(d); }
static bool is_finite(double d) { return (B(d) & 0x7ff0000000000000ull) != 0x7ff0000000000000ull; }

// ---- arithmetic clauses on the exact domain: offsets o_i = o_0 + sum d_j * s_j with integer steps d_j and integer
// samples-per-beat s_j, everything far below 2^53 so that every FP operation in the function is exact
extern "C" void h_norm_trivial()
{
    int64_t N = verif::i64("sample_count");
    std::vector<beatgrid_marker> g;
    auto out = engine::normalize_beatgrid(g, N);
    verif_reach("called");
    verif_assert(out.empty(), "S0: an empty grid is returned unchanged");
    beatgrid_marker m; m.index = verif::i32("index"); m.sample_offset = verif::f64("offset");
    g.push_back(m);
    bool threw = false;
    try { engine::normalize_beatgrid(g, N); }
    catch (const std::invalid_argument&) { threw = true; }
    verif_assert(threw, "S1: a single-marker grid is rejected with invalid_argument");
}
extern "C" void h_norm_arith()
{
    uint64_t n = verif_param("n");
    std::vector<beatgrid_marker> g;
    // all symbolic inputs are unsigned with explicit bounds (offset-binary for the signed ones)
    uint32_t un = verif_param("conc") ? (uint32_t)verif_param("N") : verif_range_u32(1, 1u << 24, "sample_count");
    int64_t N = (int64_t)un;
    int32_t idx; int64_t off;
    if (verif_param("fix0"))
    {   // runs that cover two-marker results: the first index is a run parameter (the function then divides by a concrete index difference)
        idx = (int32_t)verif_param("i0") - 4096;
    }
    else
    {
        uint32_t ui = verif_range_u32(0, 8192, "index0+4096");
        idx = (int32_t)ui - 4096;
    }
    uint32_t uo = verif_param("conc") ? (uint32_t)verif_param("o0") : verif_range_u32(0, 1u << 25, "offset0+2^24");
    off = (int64_t)uo - (1 << 24);
    int64_t s_first = 0, s_last = 0;
    for (uint64_t i = 0; i < n; ++i)
    {
        if (i)
        {
            int32_t d; int64_t s;
            if (verif_param("menu"))
            {
                // steps and tempi from a finite menu per run
                d = (int32_t)verif_param(i == 1 ? "d1" : (i == 2 ? "d2" : "d3"));
                s = (int64_t)verif_param(i == 1 ? "s1" : (i == 2 ? "s2" : "s3"));
            }
            else
            {
                uint32_t ud = verif_range_u32(1, 16, "step");
                uint32_t us = verif_range_u32(16, 65536, "spb");
                d = (int32_t)ud; s = (int64_t)us;
            }
            idx += d; off += d * s;
            if (i == 1) s_first = s;
            s_last = s;
        }
        beatgrid_marker m; m.index = idx; m.sample_offset = (double)off;
        g.push_back(m);
    }
    // "overlaps the track": the first marker is at or before the start... and the grid is not entirely beyond/before it
    verif_assume(g[0].sample_offset <= 0 || true);
    {
        // runs with a symbolic first index only cover paths on which at least three markers survive (with two, the last
        // segment's tempo is recomputed from the already moved first marker, i.e. divided by a symbolic index difference);
        // two-marker results are covered by the runs with a fixed first index/offset
        size_t e0 = n; for (size_t i = 0; i < n; ++i) if (g[i].sample_offset > (double)N) { e0 = i; break; }
        size_t m0 = e0 < n ? e0 + 1 : n;
        size_t f0 = m0; for (size_t i = 0; i < m0; ++i) if (g[i].sample_offset > 0) { f0 = i; break; }
        size_t kept0 = m0 - (f0 >= 1 ? f0 - 1 : 0);
        if (!verif_param("fix0")) verif_assume(kept0 != 2);
        // structural clauses (reference model of the trimming written from the header comment / statement)
        bool threw = false;
        std::vector<beatgrid_marker> o2;
        try { o2 = engine::normalize_beatgrid(g, N); }
        catch (const std::invalid_argument&) { threw = true; }
        verif_reach("called");
        verif_assert(threw == (kept0 < 2), "S1: invalid_argument exactly when fewer than two markers survive trimming");
        if (threw) { verif_reach("rejected"); return; }
        size_t lo1 = f0 >= 1 ? f0 - 1 : 0;
        verif_assert(o2.size() == kept0, "S2: exactly the markers from the last one at/before 0 to the first one beyond the end are kept");
        if (o2.size() != kept0) return;
        verif_assert(o2[0].index == -4, "S3: first marker has beat index -4");
        for (size_t i = 1; i + 1 < kept0; ++i)
            verif_assert(o2[i].index == g[lo1 + i].index && o2[i].sample_offset == g[lo1 + i].sample_offset, "S4: interior markers are unchanged");
    }
    if (verif_param("known1") == 0)
    {
        // decided before the call so that the excluded region (a listed known finding) is not executed at all
        size_t lo0 = 0; while (lo0 + 1 < n && g[lo0 + 1].sample_offset <= 0) ++lo0;
        if (lo0 + 1 < n) verif_assume(g[lo0 + 1].index > -4);
    }
    std::vector<beatgrid_marker> out;
    try { out = engine::normalize_beatgrid(g, N); }
    catch (const std::invalid_argument&) { verif_reach("rejected"); return; }
    verif_reach("normalised");
    size_t L = out.size() - 1;
    // which input segments became the first and last output segments
    size_t lo = 0; while (lo + 1 < n && g[lo + 1].sample_offset <= 0) ++lo;       // last marker at/before 0
    size_t hi = lo + L;
    if (verif_param("known1") == 0)
        verif_assume(g[lo + 1].index > -4);     // excluded region = known finding C20-second-marker-at-or-before-minus-4 (see h_norm_known1)
    else
        verif_assume(g[lo + 1].index <= -4);
    double sf = (g[lo + 1].sample_offset - g[lo].sample_offset) / (g[lo + 1].index - g[lo].index);
    double sl = (g[hi].sample_offset - g[hi - 1].sample_offset) / (g[hi].index - g[hi - 1].index);
    verif_assert(out[L].sample_offset >= (double)N, "A1: last marker lies at or beyond the end of the track");
    verif_assert(out[L].sample_offset < (double)N + sl, "A2: last marker is less than one beat past the end");
    verif_assert(out[0].sample_offset == g[lo].sample_offset - (4 + g[lo].index) * sf, "A3: first marker extrapolated at the tempo of the first segment");
    if (L >= 2)
    {
        verif_assert((out[1].sample_offset - out[0].sample_offset) == sf * (out[1].index - out[0].index), "A4: tempo of the first segment is kept");
        verif_assert((out[L].sample_offset - out[L - 1].sample_offset) == sl * (out[L].index - out[L - 1].index), "A5: tempo of the last segment is kept");
    }
    else
    {
        verif_assert((out[1].sample_offset - out[0].sample_offset) == sf * (out[1].index - out[0].index), "A4': tempo of the only segment is kept");
    }
    // idempotence: on the exact domain S3 + A1 + A2 imply that a second normalisation changes nothing (the first marker is
    // already at -4, and ceil((N - last) / spb) == 0 for a last marker in [N, N + spb)); a second symbolic call would divide by
    // a symbolic index difference, so it is only made when everything but the tempo menu is concrete
    if (!verif_param("idem")) return;
    auto again = engine::normalize_beatgrid(out, N);
    verif_assert(again.size() == out.size(), "A6: idempotent (size)");
    if (again.size() == out.size())
        for (size_t i = 0; i < out.size(); ++i)
            verif_assert(again[i].index == out[i].index && again[i].sample_offset == out[i].sample_offset, "A6: idempotent (markers)");
}
// demonstration entry for the listed known finding (run with known1 = 1: second surviving marker at index <= -4)
extern "C" void h_norm_known1() { h_norm_arith(); }
