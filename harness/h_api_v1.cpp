// C14 / C16 / C15 (schema 1.x): every public operation of the 1.x implementation over the abstract sqlite3 model.
#include "verif.h"
#include "v1_unity.h"
#include "h_api_ops.h"

extern "C" void h_op()
{
    v1_fixture fx;
    auto dbi = std::make_shared<v1::engine_database_impl>(fx.storage);
    djinterop::database db{dbi};
    int64_t tid = verif::i64("track_id"), cid = verif::i64("crate_id"), cid2 = verif::i64("other_crate_id");
    djinterop::track t{std::make_shared<v1::engine_track_impl>(fx.storage, tid)};
    djinterop::crate c{std::make_shared<v1::engine_crate_impl>(fx.storage, cid)};
    djinterop::crate c2{std::make_shared<v1::engine_crate_impl>(fx.storage, cid2)};
    int threw = run_op(db, t, c, c2, tid, cid);
    verif_op_done(threw);
    verif_reach("done");
}
