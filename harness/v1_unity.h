// v1_unity.h - the schema-1.x half of libdjinterop as one translation unit (real sources, unity include).
#pragma once
// performance_data_format.cpp first: it says util::optional_static_cast, which djinterop::engine::util (track_utils.hpp) would shadow
#include "/repo/src/djinterop/engine/v1/performance_data_format.cpp"
#include "/repo/src/djinterop/util/filesystem.cpp"
#include "/repo/src/djinterop/util/chrono.cpp"
#include "/repo/src/djinterop/util/random.cpp"
#include "/repo/src/djinterop/impl/database_impl.cpp"
#include "/repo/src/djinterop/impl/crate_impl.cpp"
#include "/repo/src/djinterop/impl/track_impl.cpp"
#include "/repo/src/djinterop/database.cpp"
#include "/repo/src/djinterop/crate.cpp"
#include "/repo/src/djinterop/track.cpp"
#include "/repo/src/djinterop/engine/engine_library_dir_utils.cpp"
#include "/repo/src/djinterop/engine/v1/engine_storage.cpp"
#include "/repo/src/djinterop/engine/v1/engine_database_impl.cpp"
#include "/repo/src/djinterop/engine/v1/engine_crate_impl.cpp"
#include "/repo/src/djinterop/engine/v1/engine_track_impl.cpp"
using namespace djinterop;
using namespace djinterop::engine;
using namespace djinterop::engine::v1;
extern "C" uint64_t verif_param(const char*);
static engine_schema schema_param()
{
    switch (verif_param("schema"))
    {
        case 0: return engine_schema::schema_1_6_0;
        case 1: return engine_schema::schema_1_7_1;
        case 2: return engine_schema::schema_1_9_1;
        case 3: return engine_schema::schema_1_11_1;
        case 4: return engine_schema::schema_1_13_0;
        case 5: return engine_schema::schema_1_13_1;
        case 6: return engine_schema::schema_1_13_2;
        case 7: return engine_schema::schema_1_15_0;
        case 8: return engine_schema::schema_1_17_0;
        case 9: return engine_schema::schema_1_18_0_desktop;
        default: return engine_schema::schema_1_18_0_os;
    }
}
struct v1_fixture
{
    sqlite::database db{":memory:"};
    std::shared_ptr<engine_storage> storage = std::make_shared<engine_storage>("dir", schema_param(), db);
};
