// C01 / C06 (schema 1.x): the same harness bodies as 2.x over the 1.x implementation (engine_database_impl, engine_track_impl,
// engine_storage, performance_data_format) and the key/value sqlite3 model with the 1.x tables.
#include "verif.h"
#include "v1_unity.h"
#include "h_track_common.h"
extern "C" void h_c01()
{
    v1_fixture fx;
    djinterop::database db{std::make_shared<v1::engine_database_impl>(fx.storage)};
    run_c01(db);
}
extern "C" void h_c06()
{
    v1_fixture fx;
    djinterop::database db{std::make_shared<v1::engine_database_impl>(fx.storage)};
    run_c06(db);
}
