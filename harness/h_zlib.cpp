// C05/C02: the REAL zlib_uncompress / zlib_compress wrappers over a contract stub of libz (lsx/models_zlib.py).
#include "verif.h"
#include "/repo/src/djinterop/engine/encode_decode_utils.cpp"
using namespace djinterop::engine;
extern "C" uint64_t verif_len();
extern "C" uint64_t verif_zlib_finished();
extern "C" uint64_t verif_zlib_check(const void* out, uint64_t out_len, uint64_t src_len, uint64_t skip);

extern "C" void h_zlib_uncompress()
{
    auto compressed = verif::bytes(verif_len(), "c");
    try
    {
        auto out = zlib_uncompress(compressed);
        verif_reach("returned");
        if (!out.empty() || (compressed.size() >= 4 && (compressed[0] != std::byte{0} || compressed[1] != std::byte{0} || compressed[2] != std::byte{0} || compressed[3] != std::byte{0})))
        {
            uint64_t consumed = verif_zlib_check(out.data(), out.size(), compressed.size(), 0);
            verif_assert(consumed + 4 <= compressed.size(), "zlib_uncompress offered bytes beyond the compressed vector to inflate");
        }
    }
    catch (const std::exception&) { verif_reach("rejected"); }
}
extern "C" void h_zlib_compress()
{
    // (the contract stub never looks at the content: long inputs are zero-filled instead of 16 Ki symbolic bytes)
    auto raw = verif_len() <= 64 ? verif::bytes(verif_len(), "u") : std::vector<std::byte>(verif_len());
    auto out = zlib_compress(raw);     // documented not to fail except for deflateInit
    verif_reach("returned");
    verif_assert(out.size() >= 4, "zlib_compress output lacks the 4-byte length prefix");
    uint32_t n = ((uint32_t)out[0] << 24) | ((uint32_t)out[1] << 16) | ((uint32_t)out[2] << 8) | (uint32_t)out[3];
    verif_assert(n == raw.size(), "length prefix is not the big-endian uncompressed size");
    uint64_t consumed = verif_zlib_check(out.data(), out.size(), raw.size(), 4);
    verif_assert(consumed == raw.size(), "zlib_compress did not feed every input byte to deflate exactly once");
    verif_assert(verif_zlib_finished() == 1, "zlib_compress returned a stream that was never finished (no deflate(Z_FINISH) call returned Z_STREAM_END): the blob cannot be inflated");
}

#ifdef VERIF_NATIVE
// Native confirmation of the two classes of counterexample the contract stub can produce (the stub's arbitrary
// inflate behaviour cannot be replayed verbatim against the real libz):
#include <dlfcn.h>
// contract-checking shim: zlib.h lets inflate read all of [next_in, next_in+avail_in); touching it makes ASan see a
// window that extends past the caller's vector (libz itself is not instrumented)
extern "C" int inflate(z_streamp strm, int flush)
{
    volatile unsigned char sink = 0;
    for (uInt i = 0; i < strm->avail_in; i++) sink = strm->next_in[i];
    (void)sink;
    static auto real = (int (*)(z_streamp, int))dlsym(RTLD_NEXT, "inflate");
    return real(strm, flush);
}
extern "C" void h_zlib_native_window()
{
    std::vector<std::byte> payload(100, std::byte{7});
    auto blob = zlib_compress(payload);
    blob.shrink_to_fit();
    auto out = zlib_uncompress(blob);
    verif_assert(out == payload, "native round trip");
}
extern "C" void h_zlib_native_roundtrip()
{
    // compress / uncompress through the real libz at the counterexample's length (run parameter len)
    std::vector<std::byte> payload(verif_len());
    for (size_t i = 0; i < payload.size(); ++i) payload[i] = (std::byte)(i * 7 + i / 3);
    auto blob = zlib_compress(payload);
    auto out = zlib_uncompress(blob);
    verif_assert(out == payload, "native round trip at the length of the counterexample");
}
extern "C" void h_zlib_native_truncated()
{
    std::vector<std::byte> payload(1000);
    for (size_t i = 0; i < payload.size(); ++i) payload[i] = (std::byte)(i * 7 + i / 3);
    auto blob = zlib_compress(payload);
    blob.resize(blob.size() - 5);     // truncated stream
    try { zlib_uncompress(blob); }
    catch (const std::exception&) { verif_reach("rejected"); }
}
#endif
