// C02/C03/C04: schema-2.x codecs.  Symbolic logical values -> real to_blob/from_blob; independent reference
// byte layout (written here from the documented format, sharing nothing with /repo's encode helpers).
#include "verif.h"
#include "/repo/src/djinterop/engine/v2/beat_data_blob.cpp"
#include "/repo/src/djinterop/engine/v2/quick_cues_blob.cpp"
#include "/repo/src/djinterop/engine/v2/loops_blob.cpp"
#include "/repo/src/djinterop/engine/v2/overview_waveform_data_blob.cpp"
#include "/repo/src/djinterop/engine/v2/track_data_blob.cpp"
using namespace djinterop::engine;
using namespace djinterop::engine::v2;
extern "C" uint64_t verif_len();

#include "h_blobs_v2.h"
// ---------------------------------------------------------------- reference layout (independent of /repo)
static void be64(ref_t& o, uint64_t v) { for (int i = 7; i >= 0; --i) o.push_back((uint8_t)(v >> (8 * i))); }
static void le64(ref_t& o, uint64_t v) { for (int i = 0; i < 8; ++i) o.push_back((uint8_t)(v >> (8 * i))); }
static void be32(ref_t& o, uint32_t v) { for (int i = 3; i >= 0; --i) o.push_back((uint8_t)(v >> (8 * i))); }
static void le32(ref_t& o, uint32_t v) { for (int i = 0; i < 4; ++i) o.push_back((uint8_t)(v >> (8 * i))); }
static void raw(ref_t& o, const bytes_t& b) { for (auto c : b) o.push_back((uint8_t)c); }
static void str(ref_t& o, const std::string& s) { o.push_back((uint8_t)s.size()); for (auto c : s) o.push_back((uint8_t)c); }
static ref_t ref(const beat_data_blob& x)
{
    ref_t o; be64(o, B(x.sample_rate)); be64(o, B(x.samples)); o.push_back(x.is_beatgrid_set);
    for (int g = 0; g < 2; ++g)
    {
        auto& a = g ? x.adjusted_beat_grid : x.default_beat_grid;
        be64(o, a.size());
        for (auto& m : a) { le64(o, B(m.sample_offset)); le64(o, (uint64_t)m.beat_number); le32(o, (uint32_t)m.number_of_beats); le32(o, (uint32_t)m.unknown_value_1); }
    }
    raw(o, x.extra_data); return o;
}
static ref_t ref(const quick_cues_blob& x)
{
    ref_t o; be64(o, x.quick_cues.size());
    for (auto& c : x.quick_cues) { str(o, c.label); be64(o, B(c.sample_offset)); o.push_back(c.color.a); o.push_back(c.color.r); o.push_back(c.color.g); o.push_back(c.color.b); }
    be64(o, B(x.adjusted_main_cue)); o.push_back(x.is_main_cue_adjusted ? 1 : 0); be64(o, B(x.default_main_cue));
    raw(o, x.extra_data); return o;
}
static ref_t ref(const loops_blob& x)
{
    ref_t o; le64(o, x.loops.size());
    for (auto& l : x.loops)
    {
        str(o, l.label); le64(o, B(l.start_sample_offset)); le64(o, B(l.end_sample_offset)); o.push_back(l.is_start_set); o.push_back(l.is_end_set);
        o.push_back(l.color.a); o.push_back(l.color.r); o.push_back(l.color.g); o.push_back(l.color.b);
    }
    raw(o, x.extra_data); return o;
}
static ref_t ref(const overview_waveform_data_blob& x)
{
    ref_t o; be64(o, x.waveform_points.size()); be64(o, x.waveform_points.size()); be64(o, B(x.samples_per_waveform_point));
    for (auto& p : x.waveform_points) { o.push_back(p.low_value); o.push_back(p.mid_value); o.push_back(p.high_value); }
    o.push_back(x.maximum_point.low_value); o.push_back(x.maximum_point.mid_value); o.push_back(x.maximum_point.high_value);
    raw(o, x.extra_data); return o;
}
static ref_t ref(const track_data_blob& x)
{
    ref_t o; be64(o, B(x.sample_rate)); be64(o, (uint64_t)x.samples); be32(o, (uint32_t)x.key);
    be64(o, B(x.average_loudness_low)); be64(o, B(x.average_loudness_mid)); be64(o, B(x.average_loudness_high));
    raw(o, x.extra_data); return o;
}

// framing: every 2.x blob except loops is BE32(len) ++ zlib stream
template <typename T> struct framed { static constexpr bool value = !std::is_same_v<T, loops_blob>; };
template <typename T> static bytes_t payload_of(const bytes_t& blob) { if constexpr (framed<T>::value) return zlib_uncompress(blob); else return blob; }
template <typename T> static bytes_t blob_of(const bytes_t& payload) { if constexpr (framed<T>::value) return zlib_compress(payload); else return payload; }
static bytes_t to_bytes(const ref_t& r) { bytes_t b(r.size()); for (size_t i = 0; i < r.size(); ++i) b[i] = (std::byte)r[i]; return b; }
// a label of more than 255 bytes, or an extra_data the layout has no room for, is not in the format's domain
template <typename T> static bool encodable(const T&) { return true; }

// ---------------------------------------------------------------- C03: decode(encode(x)) == x, or encode rejects
template <typename T> static void roundtrip(T (*make)())
{
    T x = make();
    bytes_t blob;
    try { blob = x.to_blob(); }
    catch (const std::exception&) { verif_reach("encode-rejected"); return; }
    verif_reach("encoded");
    try
    {
        T y = T::from_blob(blob);
        verif_reach("decoded");
        eq(x, y);
    }
    catch (const std::exception&) { verif_fail("C03: the library wrote a blob that it cannot decode"); }
}
extern "C" void h_rt_beat_data() { roundtrip<beat_data_blob>(sym_beat); }
extern "C" void h_rt_quick_cues() { roundtrip<quick_cues_blob>(sym_cues); }
extern "C" void h_rt_loops() { roundtrip<loops_blob>(sym_loops); }
extern "C" void h_rt_overview() { roundtrip<overview_waveform_data_blob>(sym_overview); }
extern "C" void h_rt_track_data() { roundtrip<track_data_blob>(sym_track); }

// ---------------------------------------------------------------- C02: agreement with the reference layout, both directions
template <typename T> static void ref_encode(T (*make)())
{
    T x = make();
    bytes_t blob;
    try { blob = x.to_blob(); }
    catch (const std::exception&) { verif_reach("encode-rejected"); return; }
    bytes_t payload = payload_of<T>(blob);
    verif_reach("encoded");
    EQ(same_bytes(payload, to_bytes(ref(x))), "C02: to_blob() payload differs from the reference Engine layout");
}
template <typename T> static void ref_decode(T (*make)())
{
    T x = make();
    ref_t r = ref(x);
    bytes_t blob = blob_of<T>(to_bytes(r));
    try
    {
        T y = T::from_blob(blob);
        verif_reach("decoded");
        eq(x, y);
    }
    catch (const std::exception&) { verif_fail("C02: from_blob() rejects a blob produced by the reference encoder"); }
}
extern "C" void h_refenc_beat_data() { ref_encode<beat_data_blob>(sym_beat); }
extern "C" void h_refenc_quick_cues() { ref_encode<quick_cues_blob>(sym_cues); }
extern "C" void h_refenc_loops() { ref_encode<loops_blob>(sym_loops); }
extern "C" void h_refenc_overview() { ref_encode<overview_waveform_data_blob>(sym_overview); }
extern "C" void h_refenc_track_data() { ref_encode<track_data_blob>(sym_track); }
extern "C" void h_refdec_beat_data() { ref_decode<beat_data_blob>(sym_beat); }
extern "C" void h_refdec_quick_cues() { ref_decode<quick_cues_blob>(sym_cues); }
extern "C" void h_refdec_loops() { ref_decode<loops_blob>(sym_loops); }
extern "C" void h_refdec_overview() { ref_decode<overview_waveform_data_blob>(sym_overview); }
extern "C" void h_refdec_track_data() { ref_decode<track_data_blob>(sym_track); }

// ---------------------------------------------------------------- C04: to_blob(from_blob(b)) preserves every byte of any accepted b
template <typename T> static void reencode()
{
    bytes_t p = verif::bytes(verif_len(), "p");
    bytes_t blob = blob_of<T>(p);
    T y;
    try { y = T::from_blob(blob); }
    catch (const std::exception&) { verif_reach("rejected"); return; }
    verif_reach("accepted");
    bytes_t q;
    try { q = payload_of<T>(y.to_blob()); }
    catch (const std::exception&) { verif_fail("C04: re-encoding an accepted blob throws"); return; }
    EQ(q.size() == p.size(), "C04: re-encoded payload has a different length");
    if (q.size() != p.size()) return;
    size_t bool_at = (size_t)-1;
    if constexpr (std::is_same_v<T, quick_cues_blob>)
    {
        bool_at = 8 + 8;   // count, then (after the cues) adjusted main cue; the boolean follows it
        for (auto& c : y.quick_cues) bool_at += 13 + c.label.size();
    }
    unsigned d = 0;
    for (size_t i = 0; i < p.size(); ++i)
    {
        if (i == bool_at) d |= (unsigned)((uint8_t)q[i] != ((uint8_t)p[i] ? 1 : 0));   // the one boolean byte may be normalised to 0/1
        else d |= (unsigned)(p[i] ^ q[i]);
    }
    EQ(d == 0, "C04: re-encoding a decoded blob changed a byte of the payload");
}
extern "C" void h_reenc_beat_data() { reencode<beat_data_blob>(); }
extern "C" void h_reenc_quick_cues() { reencode<quick_cues_blob>(); }
extern "C" void h_reenc_loops() { reencode<loops_blob>(); }
extern "C" void h_reenc_overview() { reencode<overview_waveform_data_blob>(); }
extern "C" void h_reenc_track_data() { reencode<track_data_blob>(); }
