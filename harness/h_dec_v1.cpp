// C05: schema-1.x decoders on arbitrary payload bytes (identity zlib framing under lsx)
#include "verif.h"
#include "/repo/src/djinterop/engine/v1/performance_data_format.cpp"
using namespace djinterop::engine;
using namespace djinterop::engine::v1;
extern "C" uint64_t verif_len();

template <typename B, bool Compressed = true> static void dec_only()
{
    auto payload = verif::bytes(verif_len(), "p");
    auto blob = Compressed ? zlib_compress(payload) : payload;
    try
    {
        auto b = B::decode(blob);
        verif_reach("decoded");
    }
    catch (const std::exception&)
    {
        verif_reach("rejected");
    }
}
extern "C" void h_dec1_beat_data() { dec_only<beat_data>(); }
extern "C" void h_dec1_high_res() { dec_only<high_res_waveform_data>(); }
extern "C" void h_dec1_loops() { dec_only<loops_data, false>(); }
extern "C" void h_dec1_overview() { dec_only<overview_waveform_data>(); }
extern "C" void h_dec1_quick_cues() { dec_only<quick_cues_data>(); }
extern "C" void h_dec1_track_data() { dec_only<track_data>(); }
