// h_blobs_v2.h - symbolic schema-2.x blob values and field-wise equality (doubles by bit pattern); shared by the codec
// and the table/track harnesses.  Sizes come from run parameters k1, k2, ll, extra.
#pragma once
#include "verif.h"
extern "C" uint64_t verif_param(const char*);
typedef std::vector<std::byte> bytes_t;
typedef std::vector<uint8_t> ref_t;
// ---------------------------------------------------------------- symbolic values
static std::string sym_string(size_t n, const char* name)
{
    std::string s(n, '\0');
    if (n) verif_bytes(s.data(), n, name);
    return s;
}
static djinterop::pad_color sym_color() { return djinterop::pad_color{verif_u8("r"), verif_u8("g"), verif_u8("b"), verif_u8("a")}; }
static beat_data_blob sym_beat()
{
    beat_data_blob x;
    x.sample_rate = verif::f64("sample_rate"); x.samples = verif::f64("samples"); x.is_beatgrid_set = verif_u8("is_set");
    for (uint64_t g = 0; g < 2; ++g)
    {
        auto& grid = g ? x.adjusted_beat_grid : x.default_beat_grid;
        uint64_t k = verif_param(g ? "k2" : "k1");
        for (uint64_t i = 0; i < k; ++i)
            grid.push_back(beat_grid_marker_blob{verif::f64("m.offset"), verif::i64("m.beat"), verif::i32("m.nbeats"), verif::i32("m.unk")});
    }
    x.extra_data = verif::bytes(verif_param("extra"), "extra");
    return x;
}
static quick_cues_blob sym_cues()
{
    quick_cues_blob x;
    uint64_t k = verif_param("k1"), ll = verif_param("ll");
    for (uint64_t i = 0; i < k; ++i)
    {
        quick_cue_blob c;
        c.label = sym_string(i == 0 ? ll : (ll > 3 ? 1 : (ll + i) % 4), "label");
        c.sample_offset = verif::f64("c.offset"); c.color = sym_color();
        x.quick_cues.push_back(c);
    }
    x.adjusted_main_cue = verif::f64("adj"); x.is_main_cue_adjusted = verif::boolean("is_adj"); x.default_main_cue = verif::f64("def");
    x.extra_data = verif::bytes(verif_param("extra"), "extra");
    return x;
}
static loops_blob sym_loops()
{
    loops_blob x;
    uint64_t k = verif_param("k1"), ll = verif_param("ll");
    for (uint64_t i = 0; i < k; ++i)
    {
        loop_blob l;
        l.label = sym_string(i == 0 ? ll : (ll > 3 ? 1 : (ll + i) % 4), "label");
        l.start_sample_offset = verif::f64("l.start"); l.end_sample_offset = verif::f64("l.end");
        l.is_start_set = verif_u8("l.ss"); l.is_end_set = verif_u8("l.es"); l.color = sym_color();
        x.loops.push_back(l);
    }
    x.extra_data = verif::bytes(verif_param("extra"), "extra");
    return x;
}
static overview_waveform_data_blob sym_overview()
{
    overview_waveform_data_blob x;
    x.samples_per_waveform_point = verif::f64("spp");
    uint64_t k = verif_param("k1");
    for (uint64_t i = 0; i < k; ++i) x.waveform_points.push_back(overview_waveform_point{verif_u8("lo"), verif_u8("mid"), verif_u8("hi")});
    x.maximum_point = overview_waveform_point{verif_u8("mlo"), verif_u8("mmid"), verif_u8("mhi")};
    x.extra_data = verif::bytes(verif_param("extra"), "extra");
    return x;
}
static track_data_blob sym_track()
{
    track_data_blob x{};
    x.sample_rate = verif::f64("sample_rate"); x.samples = verif::i64("samples"); x.key = verif::i32("key");
    x.average_loudness_low = verif::f64("l1"); x.average_loudness_mid = verif::f64("l2"); x.average_loudness_high = verif::f64("l3");
    x.extra_data = verif::bytes(verif_param("extra"), "extra");
    return x;
}

// ---------------------------------------------------------------- equality (doubles by bit pattern)
#define EQ(c, what) verif_assert((c), what)
static uint64_t B(double d) { return verif::bits(d); }
static bool same_bytes(const bytes_t& a, const bytes_t& b)
{
    if (a.size() != b.size()) return false;
    unsigned d = 0;
    for (size_t i = 0; i < a.size(); ++i) d |= (unsigned)(a[i] ^ b[i]);
    return d == 0;
}
static bool same_str(const std::string& a, const std::string& b)
{
    if (a.size() != b.size()) return false;
    unsigned d = 0;
    for (size_t i = 0; i < a.size(); ++i) d |= (unsigned char)(a[i] ^ b[i]);
    return d == 0;
}
static void eq(const beat_data_blob& x, const beat_data_blob& y)
{
    EQ(B(x.sample_rate) == B(y.sample_rate) && B(x.samples) == B(y.samples) && x.is_beatgrid_set == y.is_beatgrid_set, "beat_data header fields");
    for (int g = 0; g < 2; ++g)
    {
        auto& a = g ? x.adjusted_beat_grid : x.default_beat_grid; auto& b = g ? y.adjusted_beat_grid : y.default_beat_grid;
        EQ(a.size() == b.size(), "beat grid size");
        for (size_t i = 0; i < a.size() && i < b.size(); ++i)
            EQ(B(a[i].sample_offset) == B(b[i].sample_offset) && a[i].beat_number == b[i].beat_number && a[i].number_of_beats == b[i].number_of_beats &&
                   a[i].unknown_value_1 == b[i].unknown_value_1, "beat grid marker fields");
    }
    EQ(same_bytes(x.extra_data, y.extra_data), "beat_data extra_data");
}
static void eq(const quick_cues_blob& x, const quick_cues_blob& y)
{
    EQ(x.quick_cues.size() == y.quick_cues.size(), "quick cue count");
    for (size_t i = 0; i < x.quick_cues.size() && i < y.quick_cues.size(); ++i)
    {
        auto &a = x.quick_cues[i], &b = y.quick_cues[i];
        EQ(same_str(a.label, b.label), "quick cue label");
        EQ(B(a.sample_offset) == B(b.sample_offset) && a.color.r == b.color.r && a.color.g == b.color.g && a.color.b == b.color.b && a.color.a == b.color.a, "quick cue offset/colour");
    }
    EQ(B(x.adjusted_main_cue) == B(y.adjusted_main_cue) && B(x.default_main_cue) == B(y.default_main_cue) && x.is_main_cue_adjusted == y.is_main_cue_adjusted, "main cue fields");
    EQ(same_bytes(x.extra_data, y.extra_data), "quick_cues extra_data");
}
static void eq(const loops_blob& x, const loops_blob& y)
{
    EQ(x.loops.size() == y.loops.size(), "loop count");
    for (size_t i = 0; i < x.loops.size() && i < y.loops.size(); ++i)
    {
        auto &a = x.loops[i], &b = y.loops[i];
        EQ(same_str(a.label, b.label), "loop label");
        EQ(B(a.start_sample_offset) == B(b.start_sample_offset) && B(a.end_sample_offset) == B(b.end_sample_offset) && a.is_start_set == b.is_start_set &&
               a.is_end_set == b.is_end_set && a.color.r == b.color.r && a.color.g == b.color.g && a.color.b == b.color.b && a.color.a == b.color.a, "loop offsets/flags/colour");
    }
    EQ(same_bytes(x.extra_data, y.extra_data), "loops extra_data");
}
static void eq(const overview_waveform_data_blob& x, const overview_waveform_data_blob& y)
{
    EQ(B(x.samples_per_waveform_point) == B(y.samples_per_waveform_point), "overview samples per point");
    EQ(x.waveform_points.size() == y.waveform_points.size(), "overview point count");
    for (size_t i = 0; i < x.waveform_points.size() && i < y.waveform_points.size(); ++i)
        EQ(x.waveform_points[i].low_value == y.waveform_points[i].low_value && x.waveform_points[i].mid_value == y.waveform_points[i].mid_value &&
               x.waveform_points[i].high_value == y.waveform_points[i].high_value, "overview point");
    EQ(x.maximum_point.low_value == y.maximum_point.low_value && x.maximum_point.mid_value == y.maximum_point.mid_value && x.maximum_point.high_value == y.maximum_point.high_value, "overview maximum point");
    EQ(same_bytes(x.extra_data, y.extra_data), "overview extra_data");
}
static void eq(const track_data_blob& x, const track_data_blob& y)
{
    EQ(B(x.sample_rate) == B(y.sample_rate) && x.samples == y.samples && x.key == y.key, "track_data rate/samples/key");
    EQ(B(x.average_loudness_low) == B(y.average_loudness_low) && B(x.average_loudness_mid) == B(y.average_loudness_mid) && B(x.average_loudness_high) == B(y.average_loudness_high), "track_data loudness");
    EQ(same_bytes(x.extra_data, y.extra_data), "track_data extra_data");
}

