// explicit instantiation so that the real libstdc++ basic_string code is available as IR
#include <string>
template class std::__cxx11::basic_string<char>;
