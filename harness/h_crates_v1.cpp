// C07 (schema 1.x): crate forest through the public API over the relational sqlite3 model with the 1.x DDL (symbolic) / built library + real SQLite (native).
#include "verif.h"
extern "C" uint64_t verif_param(const char*);
#ifdef VERIF_NATIVE
#include <djinterop/djinterop.hpp>
#include <optional>
#include <string>
#include "h_crates.h"
static djinterop::engine::engine_schema native_schema()
{
    using djinterop::engine::engine_schema;
    static const engine_schema v[] = {engine_schema::schema_1_6_0, engine_schema::schema_1_7_1, engine_schema::schema_1_9_1, engine_schema::schema_1_11_1, engine_schema::schema_1_13_0,
                                      engine_schema::schema_1_13_1, engine_schema::schema_1_13_2, engine_schema::schema_1_15_0, engine_schema::schema_1_17_0,
                                      engine_schema::schema_1_18_0_desktop, engine_schema::schema_1_18_0_os};
    return v[verif_param("schema") > 10 ? 10 : verif_param("schema")];
}
extern "C" void h_crates()
{
    auto db = djinterop::engine::create_temporary_database(native_schema());
    run_crates(db);
}
#else
#include "v1_unity.h"
#include "h_crates.h"
extern "C" void h_crates()
{
    v1_fixture fx;
    djinterop::database db{std::make_shared<v1::engine_database_impl>(fx.storage)};
    run_crates(db);
}
#endif
