// C09 (schema 2.x), playlist-entity listing through the table-level API (public header djinterop/engine/v2/playlist_entity_table.hpp):
// entities are added to two lists in an interleaved order with *arbitrary* values in the fields the header says need not be populated
// (next_entity_id, membership_reference), then one is removed / a list is cleared; get_for_list / track_ids must list every entry
// exactly once in the order added.
#include "verif.h"
extern "C" uint64_t verif_param(const char*);
#ifdef VERIF_NATIVE
#include <djinterop/djinterop.hpp>
#include <djinterop/engine/v2/engine_library.hpp>
#include <algorithm>
using namespace djinterop::engine;
using namespace djinterop::engine::v2;
static engine_library make_lib()
{
    static const engine_schema v[] = {engine_schema::schema_2_18_0, engine_schema::schema_2_20_1, engine_schema::schema_2_20_2, engine_schema::schema_2_20_3,
                                      engine_schema::schema_2_21_0, engine_schema::schema_2_21_1, engine_schema::schema_2_21_2};
    return engine_library::create_temporary(v[verif_param("schema") > 6 ? 6 : verif_param("schema")]);
}
#define LIB(l) auto l = make_lib()
#else
#include "v2_unity.h"
#include <algorithm>
#define LIB(l) v2_fixture fx_; auto& l = *fx_.lib
#endif
#define CK(c, msg) verif_assert((c), msg)
static int pick(int n, const char* what)
{
    uint32_t v = verif_range_u32(0, (uint32_t)(n - 1), what);
    for (int i = 0; i < n - 1; ++i) if (v == (uint32_t)i) return i;
    return n - 1;
}
extern "C" void h_entities()
{
    LIB(lib);
    auto pl = lib.playlist(); auto pe = lib.playlist_entity();
    int64_t lists[2];
    for (int i = 0; i < 2; ++i)
        lists[i] = pl.add(playlist_row{PLAYLIST_ROW_ID_NONE, std::string(1, (char)('a' + i)), PARENT_LIST_ID_NONE, true, PLAYLIST_NO_NEXT_LIST_ID, std::chrono::system_clock::time_point{}, true});
    std::vector<int64_t> want[2];
    int n = (int)verif_param("n");
    uint64_t pattern = verif_param("pattern");      // bit i: entity i goes to list 1
    for (int i = 0; i < n; ++i)
    {
        int l = (pattern >> i) & 1;
        playlist_entity_row row{PLAYLIST_ENTITY_ROW_ID_NONE, lists[l], 100 + i, "uuid-1", (int64_t)verif_u64("next_entity_id"), (int64_t)verif_u64("membership_reference")};
        pe.add_back(row);
        want[l].push_back(100 + i);
        for (int k = 0; k < 2; ++k)
        {
            auto got = pe.track_ids(lists[k]);
            CK(got.size() == want[k].size() && std::equal(got.begin(), got.end(), want[k].begin()), "C09: playlist entries are not listed exactly once in the order they were added");
        }
    }
    verif_reach("added");
    if (verif_param("then") == 1 && n > 0)
    {   // remove one entry (first / middle / last: symbolic choice)
        int l = pick(2, "list");
        if (!want[l].empty())
        {
            int i = pick((int)want[l].size(), "entry");
            pe.remove(lists[l], want[l][i]); want[l].erase(want[l].begin() + i);
        }
    }
    else if (verif_param("then") == 2) { int l = pick(2, "list"); pe.clear(lists[l]); want[l].clear(); }
    for (int k = 0; k < 2; ++k)
    {
        auto got = pe.track_ids(lists[k]);
        CK(got.size() == want[k].size() && std::equal(got.begin(), got.end(), want[k].begin()), "C09: after a removal the remaining entries are not listed exactly once in order");
        auto rows = pe.get_for_list(lists[k]); size_t j = 0;
        for (auto& r : rows) { CK(j < want[k].size() && r.track_id == want[k][j] && r.list_id == lists[k], "C09: get_for_list disagrees with track_ids"); ++j; }
        CK(j == want[k].size(), "C09: get_for_list misses entries");
    }
    verif_reach("checked");
}
