// C10, schema 1.x: see h_reopen.h
#include "verif.h"
extern "C" uint64_t verif_param(const char*);
#ifdef VERIF_NATIVE
#include <djinterop/djinterop.hpp>
#include <optional>
#include <stdexcept>
#include <string>
#include <cstdlib>
#include <unistd.h>
#include "h_reopen.h"
static djinterop::engine::engine_schema native_schema()
{
    using djinterop::engine::engine_schema;
    static const engine_schema v[] = {engine_schema::schema_1_6_0, engine_schema::schema_1_7_1, engine_schema::schema_1_9_1, engine_schema::schema_1_11_1, engine_schema::schema_1_13_0,
                                      engine_schema::schema_1_13_1, engine_schema::schema_1_13_2, engine_schema::schema_1_15_0, engine_schema::schema_1_17_0,
                                      engine_schema::schema_1_18_0_desktop, engine_schema::schema_1_18_0_os};
    return v[verif_param("schema") > 10 ? 10 : verif_param("schema")];
}
extern "C" void h_reopen()
{
    char tmpl[] = "/tmp/verif-reopen-XXXXXX";
    std::string dir = mkdtemp(tmpl);
    run_reopen([&](bool create) {
        if (create) return djinterop::engine::create_database(dir, native_schema());
        djinterop::engine::engine_schema loaded{};
        auto db = djinterop::engine::load_database(dir, loaded);
        verif_assert(loaded == native_schema(), "C10: loading reports a different schema version than the library was created with");
        return db;
    });
    std::string cmd = "rm -rf " + dir; if (std::system(cmd.c_str())) {}
}
#else
#include "v1_unity.h"
#include "h_reopen.h"
extern "C" void h_reopen()
{
    std::optional<v1_fixture> fx;
    run_reopen([&](bool create) {
        fx.reset(); fx.emplace();
        if (create)
            fx->storage->db << "INSERT INTO Information (uuid, schemaVersionMajor, schemaVersionMinor, schemaVersionPatch) VALUES (?, ?, ?, ?)"
                            << std::string{"uuid-1"} << (int64_t)1 << (int64_t)18 << (int64_t)0;
        djinterop::database db{std::make_shared<v1::engine_database_impl>(fx->storage)};
        fx->storage.reset();
        return db;
    });
}
#endif
