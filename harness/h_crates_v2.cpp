// C07 / C09 (schema 2.x): crate forest and sibling order through the public API; symbolically the real database_impl / crate_impl /
// playlist_table / sqlite_modern_cpp run over the relational sqlite3 model (lsx/models_rel.py: tables, UNIQUE constraints and triggers parsed
// from the DDL in /repo's schema creator); natively (replay) the same body runs against the built library and the real SQLite.
#include "verif.h"
extern "C" uint64_t verif_param(const char*);
#ifdef VERIF_NATIVE
#include <djinterop/djinterop.hpp>
#include <optional>
#include <string>
#include "h_crates.h"
static djinterop::engine::engine_schema native_schema()
{
    using djinterop::engine::engine_schema;
    static const engine_schema v[] = {engine_schema::schema_2_18_0, engine_schema::schema_2_20_1, engine_schema::schema_2_20_2, engine_schema::schema_2_20_3,
                                      engine_schema::schema_2_21_0, engine_schema::schema_2_21_1, engine_schema::schema_2_21_2};
    return v[verif_param("schema") > 6 ? 6 : verif_param("schema")];
}
extern "C" void h_crates()
{
    auto db = djinterop::engine::create_temporary_database(native_schema());
    run_crates(db);
}
#else
#include "v2_unity.h"
#include "h_crates.h"
extern "C" void h_crates()
{
    v2_fixture fx;
    djinterop::database db{std::make_shared<v2::database_impl>(fx.lib)};
    run_crates(db);
}
#endif
