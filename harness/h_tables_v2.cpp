// C18: a row written through the schema-2.x table API reads back as written.  Real track_table / playlist_table /
// playlist_entity_table + real sqlite_modern_cpp binders over the key/value sqlite3 model.
#include "verif.h"
#include "v2_unity.h"
#include "h_blobs_v2.h"
typedef std::chrono::system_clock::time_point tp_t;

// presence of optionals is a run parameter ("mask"); every value is symbolic; each string is one symbolic byte, so that
// swapping two same-typed columns changes the read-back row for every value
static uint64_t g_opt = 0;
static bool present() { bool p = (verif_param("mask") >> (g_opt % 60)) & 1; ++g_opt; return p; }
static std::string S(const char* n) { std::string s(1, '\0'); verif_bytes(s.data(), 1, n); return s; }
static std::optional<std::string> OS(const char* n) { if (!present()) return std::nullopt; return S(n); }
static std::optional<int64_t> OI(const char* n) { if (!present()) return std::nullopt; return verif::i64(n); }
static std::optional<int32_t> OI32(const char* n) { if (!present()) return std::nullopt; return verif::i32(n); }
static std::optional<double> OD(const char* n) { if (!present()) return std::nullopt; return verif::f64(n); }
static tp_t TP(const char* n) { return tp_t{std::chrono::seconds{(int64_t)verif_range_u64(0, 1ull << 32, n)}}; }   // whole seconds, years 1970..2106
static std::optional<tp_t> OTP(const char* n) { if (!present()) return std::nullopt; return TP(n); }

static track_row sym_row()
{
    track_row r{};
    r.id = TRACK_ROW_ID_NONE;
    r.play_order = OI("play_order"); r.length = verif::i64("length"); r.bpm = OI("bpm"); r.year = OI("year");
    r.path = S("path"); r.filename = S("filename"); r.bitrate = OI("bitrate"); r.bpm_analyzed = OD("bpm_analyzed");
    r.album_art_id = verif::i64("album_art_id"); r.file_bytes = OI("file_bytes"); r.title = OS("title"); r.artist = OS("artist");
    r.album = OS("album"); r.genre = OS("genre"); r.comment = OS("comment"); r.label = OS("label"); r.composer = OS("composer");
    r.remixer = OS("remixer"); r.key = OI32("key"); r.rating = verif::i64("rating"); r.album_art = OS("album_art");
    r.time_last_played = OTP("time_last_played"); r.is_played = verif::boolean("is_played"); r.file_type = S("file_type");
    r.is_analyzed = verif::boolean("is_analyzed"); r.date_created = TP("date_created"); r.date_added = TP("date_added");
    r.is_available = verif::boolean("is_available"); r.is_metadata_of_packed_track_changed = verif::boolean("meta_changed");
    r.is_performance_data_of_packed_track_changed = verif::boolean("perf_changed"); r.played_indicator = OI("played_indicator");
    r.is_metadata_imported = verif::boolean("is_metadata_imported"); r.pdb_import_key = verif::i64("pdb_import_key");
    r.streaming_source = OS("streaming_source"); r.uri = OS("uri"); r.is_beat_grid_locked = verif::boolean("is_beat_grid_locked");
    r.origin_database_uuid = S("origin_database_uuid"); r.origin_track_id = verif::i64("origin_track_id");
    r.track_data = sym_track(); r.overview_waveform_data = sym_overview(); r.beat_data = sym_beat(); r.quick_cues = sym_cues(); r.loops = sym_loops();
    r.third_party_source_id = OI("third_party_source_id"); r.streaming_flags = verif::i64("streaming_flags");
    r.explicit_lyrics = verif::boolean("explicit_lyrics"); r.active_on_load_loops = OI("active_on_load_loops"); r.last_edit_time = TP("last_edit_time");
    return r;
}
static bool same_os(const std::optional<std::string>& a, const std::optional<std::string>& b) { return a.has_value() == b.has_value() && (!a || same_str(*a, *b)); }
static bool same_od(const std::optional<double>& a, const std::optional<double>& b) { return a.has_value() == b.has_value() && (!a || B(*a) == B(*b)); }
#define F(cond, name) verif_assert((cond), "track_row." name " differs after the round trip")
// which columns exist depends on the schema range: streaming flags / explicit lyrics from 2.20.1, active-on-load loops / last edit time from 2.20.3
static void eq_row(const track_row& a, const track_row& b, engine_schema s, const char* skip = "")
{
#define SK(n) (std::strcmp(skip, n) == 0)
    if (!SK("play_order")) F(a.play_order == b.play_order, "play_order");
    if (!SK("length")) F(a.length == b.length, "length");
    if (!SK("bpm")) F(a.bpm == b.bpm, "bpm");
    if (!SK("year")) F(a.year == b.year, "year");
    if (!SK("path")) F(same_str(a.path, b.path), "path");
    if (!SK("filename")) F(same_str(a.filename, b.filename), "filename");
    if (!SK("bitrate")) F(a.bitrate == b.bitrate, "bitrate");
    if (!SK("bpm_analyzed")) F(same_od(a.bpm_analyzed, b.bpm_analyzed), "bpm_analyzed");
    if (!SK("album_art_id")) F(a.album_art_id == b.album_art_id, "album_art_id");
    if (!SK("file_bytes")) F(a.file_bytes == b.file_bytes, "file_bytes");
    if (!SK("title")) F(same_os(a.title, b.title), "title");
    if (!SK("artist")) F(same_os(a.artist, b.artist), "artist");
    if (!SK("album")) F(same_os(a.album, b.album), "album");
    if (!SK("genre")) F(same_os(a.genre, b.genre), "genre");
    if (!SK("comment")) F(same_os(a.comment, b.comment), "comment");
    if (!SK("label")) F(same_os(a.label, b.label), "label");
    if (!SK("composer")) F(same_os(a.composer, b.composer), "composer");
    if (!SK("remixer")) F(same_os(a.remixer, b.remixer), "remixer");
    if (!SK("key")) F(a.key == b.key, "key");
    if (!SK("rating")) F(a.rating == b.rating, "rating");
    if (!SK("album_art")) F(same_os(a.album_art, b.album_art), "album_art");
    if (!SK("time_last_played")) F(a.time_last_played == b.time_last_played, "time_last_played");
    if (!SK("is_played")) F(a.is_played == b.is_played, "is_played");
    if (!SK("file_type")) F(same_str(a.file_type, b.file_type), "file_type");
    if (!SK("is_analyzed")) F(a.is_analyzed == b.is_analyzed, "is_analyzed");
    if (!SK("date_created")) F(a.date_created == b.date_created, "date_created");
    if (!SK("date_added")) F(a.date_added == b.date_added, "date_added");
    if (!SK("is_available")) F(a.is_available == b.is_available, "is_available");
    if (!SK("meta_changed")) F(a.is_metadata_of_packed_track_changed == b.is_metadata_of_packed_track_changed, "is_metadata_of_packed_track_changed");
    if (!SK("perf_changed")) F(a.is_performance_data_of_packed_track_changed == b.is_performance_data_of_packed_track_changed, "is_performance_data_of_packed_track_changed");
    if (!SK("played_indicator")) F(a.played_indicator == b.played_indicator, "played_indicator");
    if (!SK("is_metadata_imported")) F(a.is_metadata_imported == b.is_metadata_imported, "is_metadata_imported");
    if (!SK("pdb_import_key")) F(a.pdb_import_key == b.pdb_import_key, "pdb_import_key");
    if (!SK("streaming_source")) F(same_os(a.streaming_source, b.streaming_source), "streaming_source");
    if (!SK("uri")) F(same_os(a.uri, b.uri), "uri");
    if (!SK("is_beat_grid_locked")) F(a.is_beat_grid_locked == b.is_beat_grid_locked, "is_beat_grid_locked");
    // origin database uuid / origin track id: fixed up by the database itself (exempt)
    if (!SK("track_data")) eq(a.track_data, b.track_data);
    if (!SK("overview")) eq(a.overview_waveform_data, b.overview_waveform_data);
    if (!SK("beat_data")) eq(a.beat_data, b.beat_data);
    if (!SK("quick_cues")) eq(a.quick_cues, b.quick_cues);
    if (!SK("loops")) eq(a.loops, b.loops);
    if (!SK("third_party_source_id")) F(a.third_party_source_id == b.third_party_source_id, "third_party_source_id");
    if (s >= engine_schema::schema_2_20_1)
    {
        if (!SK("streaming_flags")) F(a.streaming_flags == b.streaming_flags, "streaming_flags");
        if (!SK("explicit_lyrics")) F(a.explicit_lyrics == b.explicit_lyrics, "explicit_lyrics");
    }
    if (s >= engine_schema::schema_2_20_3)
    {
        if (!SK("active_on_load_loops")) F(a.active_on_load_loops == b.active_on_load_loops, "active_on_load_loops");
        // last edit time: maintained by the database itself (exempt)
    }
#undef SK
}

extern "C" void h_track_add_get()
{
    v2_fixture fx; track_table t{fx.ctx};
    track_row r = sym_row();
    int64_t id = t.add(r);
    verif_reach("added");
    auto got = t.get(id);
    verif_assert(got.has_value(), "get() finds the row that add() returned the id of");
    if (!got) return;
    verif_assert(got->id == id, "row id");
    eq_row(r, *got, fx.ctx->schema);
    verif_reach("compared");
    verif_assert(t.exists(id) && !t.exists(id + 1), "exists()");
}
extern "C" void h_track_update_get()
{
    v2_fixture fx; track_table t{fx.ctx};
    g_opt = 17; track_row first = sym_row();     // a different presence pattern for the row that gets overwritten
    int64_t id = t.add(first);
    g_opt = 0; track_row r = sym_row(); r.id = id;
    t.update(r);
    verif_reach("updated");
    auto got = t.get(id);
    verif_assert(got.has_value() && got->id == id, "get() after update()");
    if (!got) return;
    eq_row(r, *got, fx.ctx->schema);
    verif_reach("compared");
}
extern "C" void h_track_missing()
{
    v2_fixture fx; track_table t{fx.ctx};
    track_row r = sym_row();
    int64_t id = t.add(r);
    int64_t other = id + 7;
    int n = 0;
    try { t.remove(other); } catch (const std::exception&) { ++n; }
    try { t.get_title(other); } catch (const std::exception&) { ++n; }
    try { t.set_title(other, std::string{"x"}); } catch (const std::exception&) { ++n; }
    try { t.get_beat_data(other); } catch (const std::exception&) { ++n; }
    try { t.set_rating(other, 3); } catch (const std::exception&) { ++n; }
    try { t.set_time_last_played(other, std::nullopt); } catch (const std::exception&) { ++n; }
    verif_reach("probed");
    verif_assert(n == 6, "accessors and remove() naming a nonexistent row must report an error");
    verif_assert(!t.get(other).has_value(), "get() of a nonexistent row is empty");
    auto still = t.get(id);
    verif_assert(still.has_value(), "the existing row is untouched by failed operations on another id");
    if (still) eq_row(r, *still, fx.ctx->schema);
    t.remove(id);
    verif_assert(!t.exists(id) && !t.get(id).has_value(), "remove() removes the row");
}

// per-column accessors: getter returns the field; setter changes that column only
#define COL(field, getter, setter, newval, same, skipname)                                                                        \
    {                                                                                                                            \
        auto v0 = t.getter(id);                                                                                                  \
        verif_assert(same(v0, r.field), "per-column getter " #getter " returns a different value than the row holds");            \
        auto nv = newval;                                                                                                        \
        t.setter(id, nv);                                                                                                        \
        auto v1 = t.getter(id);                                                                                                  \
        verif_assert(same(v1, nv), "per-column getter after " #setter " does not return the value set");                          \
        auto row2 = t.get(id);                                                                                                   \
        verif_assert(row2.has_value(), "row vanished after " #setter);                                                           \
        if (row2) { verif_assert(same(row2->field, nv), #setter " did not change its own column in the row"); eq_row(r, *row2, fx.ctx->schema, skipname); } \
        t.setter(id, r.field);                                                                                                   \
    }
static bool sI(int64_t a, int64_t b) { return a == b; }
static bool sOI(const std::optional<int64_t>& a, const std::optional<int64_t>& b) { return a == b; }
static bool sOI32(const std::optional<int32_t>& a, const std::optional<int32_t>& b) { return a == b; }
static bool sB(bool a, bool b) { return a == b; }
static bool sS(const std::string& a, const std::string& b) { return same_str(a, b); }
template <class X, class Y> static bool sTP(const X& a, const Y& b) { return a == b; }
static bool sOTP(const std::optional<tp_t>& a, const std::optional<tp_t>& b) { return a == b; }
extern "C" void h_track_columns()
{
    v2_fixture fx; track_table t{fx.ctx};
    track_row r = sym_row();
    int64_t id = t.add(r);
    uint64_t part = verif_param("part");
    if (part == 0)
    {
        COL(play_order, get_play_order, set_play_order, OI("n.play_order"), sOI, "play_order");
        COL(length, get_length, set_length, verif::i64("n.length"), sI, "length");
        COL(bpm, get_bpm, set_bpm, OI("n.bpm"), sOI, "bpm");
        COL(year, get_year, set_year, OI("n.year"), sOI, "year");
        COL(path, get_path, set_path, S("n.path"), sS, "path");
        COL(filename, get_filename, set_filename, S("n.filename"), sS, "filename");
        COL(bitrate, get_bitrate, set_bitrate, OI("n.bitrate"), sOI, "bitrate");
        COL(bpm_analyzed, get_bpm_analyzed, set_bpm_analyzed, OD("n.bpm_analyzed"), same_od, "bpm_analyzed");
        COL(album_art_id, get_album_art_id, set_album_art_id, verif::i64("n.album_art_id"), sI, "album_art_id");
        COL(file_bytes, get_file_bytes, set_file_bytes, OI("n.file_bytes"), sOI, "file_bytes");
        COL(title, get_title, set_title, OS("n.title"), same_os, "title");
        COL(artist, get_artist, set_artist, OS("n.artist"), same_os, "artist");
        COL(album, get_album, set_album, OS("n.album"), same_os, "album");
        COL(genre, get_genre, set_genre, OS("n.genre"), same_os, "genre");
        COL(comment, get_comment, set_comment, OS("n.comment"), same_os, "comment");
    }
    else if (part == 1)
    {
        COL(label, get_label, set_label, OS("n.label"), same_os, "label");
        COL(composer, get_composer, set_composer, OS("n.composer"), same_os, "composer");
        COL(remixer, get_remixer, set_remixer, OS("n.remixer"), same_os, "remixer");
        COL(key, get_key, set_key, OI32("n.key"), sOI32, "key");
        COL(rating, get_rating, set_rating, verif::i64("n.rating"), sI, "rating");
        COL(album_art, get_album_art, set_album_art, OS("n.album_art"), same_os, "album_art");
        COL(time_last_played, get_time_last_played, set_time_last_played, OTP("n.time_last_played"), sOTP, "time_last_played");
        COL(is_played, get_is_played, set_is_played, verif::boolean("n.is_played"), sB, "is_played");
        COL(file_type, get_file_type, set_file_type, S("n.file_type"), sS, "file_type");
        COL(is_analyzed, get_is_analyzed, set_is_analyzed, verif::boolean("n.is_analyzed"), sB, "is_analyzed");
        COL(date_created, get_date_created, set_date_created, TP("n.date_created"), sTP, "date_created");
        COL(date_added, get_date_added, set_date_added, TP("n.date_added"), sTP, "date_added");
        COL(is_available, get_is_available, set_is_available, verif::boolean("n.is_available"), sB, "is_available");
        COL(is_metadata_of_packed_track_changed, get_is_metadata_of_packed_track_changed, set_is_metadata_of_packed_track_changed, verif::boolean("n.meta_changed"), sB, "meta_changed");
        COL(is_performance_data_of_packed_track_changed, get_is_performance_data_of_packed_track_changed, set_is_performance_data_of_packed_track_changed, verif::boolean("n.perf_changed"), sB, "perf_changed");
    }
    else
    {
        COL(played_indicator, get_played_indicator, set_played_indicator, OI("n.played_indicator"), sOI, "played_indicator");
        COL(is_metadata_imported, get_is_metadata_imported, set_is_metadata_imported, verif::boolean("n.is_metadata_imported"), sB, "is_metadata_imported");
        COL(pdb_import_key, get_pdb_import_key, set_pdb_import_key, verif::i64("n.pdb_import_key"), sI, "pdb_import_key");
        COL(streaming_source, get_streaming_source, set_streaming_source, OS("n.streaming_source"), same_os, "streaming_source");
        COL(uri, get_uri, set_uri, OS("n.uri"), same_os, "uri");
        COL(is_beat_grid_locked, get_is_beat_grid_locked, set_is_beat_grid_locked, verif::boolean("n.is_beat_grid_locked"), sB, "is_beat_grid_locked");
        COL(third_party_source_id, get_third_party_source_id, set_third_party_source_id, OI("n.third_party_source_id"), sOI, "third_party_source_id");
        if (fx.ctx->schema >= engine_schema::schema_2_20_1)
        {
            COL(streaming_flags, get_streaming_flags, set_streaming_flags, verif::i64("n.streaming_flags"), sI, "streaming_flags");
            COL(explicit_lyrics, get_explicit_lyrics, set_explicit_lyrics, verif::boolean("n.explicit_lyrics"), sB, "explicit_lyrics");
        }
        if (fx.ctx->schema >= engine_schema::schema_2_20_3)
            COL(active_on_load_loops, get_active_on_load_loops, set_active_on_load_loops, OI("n.active_on_load_loops"), sOI, "active_on_load_loops");
        // blob columns
        { auto nv = sym_beat(); t.set_beat_data(id, nv); eq(t.get_beat_data(id), nv); auto row2 = t.get(id); if (row2) eq_row(r, *row2, fx.ctx->schema, "beat_data"); t.set_beat_data(id, r.beat_data); }
        { auto nv = sym_cues(); t.set_quick_cues(id, nv); eq(t.get_quick_cues(id), nv); auto row2 = t.get(id); if (row2) eq_row(r, *row2, fx.ctx->schema, "quick_cues"); t.set_quick_cues(id, r.quick_cues); }
        { auto nv = sym_loops(); t.set_loops(id, nv); eq(t.get_loops(id), nv); auto row2 = t.get(id); if (row2) eq_row(r, *row2, fx.ctx->schema, "loops"); t.set_loops(id, r.loops); }
        { auto nv = sym_track(); t.set_track_data(id, nv); eq(t.get_track_data(id), nv); auto row2 = t.get(id); if (row2) eq_row(r, *row2, fx.ctx->schema, "track_data"); t.set_track_data(id, r.track_data); }
        { auto nv = sym_overview(); t.set_overview_waveform_data(id, nv); eq(t.get_overview_waveform_data(id), nv); auto row2 = t.get(id); if (row2) eq_row(r, *row2, fx.ctx->schema, "overview"); t.set_overview_waveform_data(id, r.overview_waveform_data); }
    }
    verif_reach("columns-done");
}
