// h_track_common.h - C01 / C06 harness bodies shared by both schema generations: they only use the public
// djinterop::database / djinterop::track API, so the same code runs over the 1.x and the 2.x implementation.
// Run parameter "gen" (1 or 2) selects the generation-specific lines of the normalisation oracle.
#pragma once
typedef std::chrono::system_clock::time_point tp_t;
static uint64_t B(double d) { return verif::bits(d); }
static uint64_t g_opt = 0;
static bool present() { bool p = (verif_param("mask") >> (g_opt % 60)) & 1; ++g_opt; return p; }
static std::string S(const char* n, size_t len = 2) { std::string s(len, 'x'); if (verif_param("focus") == 0 || verif_param("focus") == 3 || verif_param("focus") == 2) verif_bytes(s.data(), len, n); return s; }
static std::optional<std::string> OS(const char* n) { if (!present()) return std::nullopt; return S(n); }
static bool same_str(const std::string& a, const std::string& b)
{
    if (a.size() != b.size()) return false;
    unsigned d = 0; for (size_t i = 0; i < a.size(); ++i) d |= (unsigned char)(a[i] ^ b[i]);
    return d == 0;
}
static bool eq_os(const std::optional<std::string>& a, const std::optional<std::string>& b) { return a.has_value() == b.has_value() && (!a || same_str(*a, *b)); }
static bool eq_od(const std::optional<double>& a, const std::optional<double>& b) { return a.has_value() == b.has_value() && (!a || B(*a) == B(*b)); }
static pad_color col() { return pad_color{verif_u8("r"), verif_u8("g"), verif_u8("b"), verif_u8("a")}; }

// "focus" run parameter: which group of fields is symbolic in this run (0 = all; the others take fixed ordinary values), so
// that the sentinel comparisons of one group do not multiply with those of another
static uint64_t g_focus_override = 0;      // != 0: the snapshot being built takes this focus instead of the run parameter (99 = every field concrete)
static bool foc(uint64_t g, uint64_t sub = 0) { uint64_t f = g_focus_override ? g_focus_override : verif_param("focus"); return f == 0 || f == g || (sub && f == sub); }   // 11..17: a single numeric field of group 1
static double D(uint64_t g, const char* n, double dflt, uint64_t sub = 0) { return foc(g, sub) ? verif::f64(n) : dflt; }
static int32_t I32(uint64_t g, const char* n, int32_t dflt, uint64_t sub = 0) { return foc(g, sub) ? verif::i32(n) : dflt; }
static uint64_t g_cues = ~0ull, g_loops = ~0ull;       // slot patterns of the next snapshot when they differ from the run parameters "cues" / "loops"
static track_snapshot sym_snapshot()
{
    track_snapshot s;
    s.album = OS("album"); s.artist = OS("artist");
    if (present()) s.average_loudness = D(1, "loudness", 0.5, 11);
    uint64_t nb = verif_param("grid");
    for (uint64_t i = 0; i < nb; ++i) { beatgrid_marker m; m.index = I32(3, "grid.index", (int32_t)i * 4); m.sample_offset = D(3, "grid.offset", 1000.0 * i); s.beatgrid.push_back(m); }
    if (present()) s.bitrate = I32(3, "bitrate", 320);
    if (present()) s.bpm = foc(1, 12) ? (double)verif_range_u32(0, 1u << 20, "bpm") : 120.5;      // integer-valued 0 .. 2^20 (the stored integer copy is a double->int cast: fractional and extreme values are outside, see C15)
    s.comment = OS("comment"); s.composer = OS("composer");
    if (present()) s.duration = std::chrono::milliseconds{foc(1, 13) ? (int64_t)verif_range_u64(0, 1ull << 40, "duration_ms") : 123456};
    if (present()) s.file_bytes = foc(3) ? verif_u64("file_bytes") : 1000;
    s.genre = OS("genre");
    uint64_t cm = g_cues != ~0ull ? g_cues : verif_param("cues");       // bit i: slot i holds a cue; number of slots given = highest bit + 1
    for (int i = 0; i < 8 && (cm >> i); ++i)
    {
        if ((cm >> i) & 1) { hot_cue c; c.label = S("cue.label", 1 + i % 2); c.sample_offset = D(2, "cue.offset", 100.0 + i); c.color = foc(2) ? col() : pad_color{1, 2, 3, 4}; s.hot_cues.push_back(c); }
        else s.hot_cues.push_back(std::nullopt);
    }
    if (present()) { uint32_t k = foc(3) ? verif_range_u32(0, 23, "key") : 5; s.key = static_cast<musical_key>(k); }
    if (present()) s.last_played_at = tp_t{std::chrono::nanoseconds{foc(3) ? (int64_t)verif_range_u64(0, 4000000000000000000ull, "last_played_ns") : 1600000000123456789ll}};
    uint64_t lm = g_loops != ~0ull ? g_loops : verif_param("loops");
    for (int i = 0; i < 8 && (lm >> i); ++i)
    {
        if ((lm >> i) & 1) { loop l; l.label = S("loop.label", 1 + i % 2); l.start_sample_offset = D(2, "loop.start", 10.0 + i); l.end_sample_offset = D(2, "loop.end", 20.0 + i); l.color = foc(2) ? col() : pad_color{5, 6, 7, 8}; s.loops.push_back(l); }
        else s.loops.push_back(std::nullopt);
    }
    if (present()) s.main_cue = D(1, "main_cue", 42.0, 14);
    s.publisher = OS("publisher");
    if (present()) s.rating = I32(1, "rating", 60, 15);
    s.relative_path = std::string{"dir/"} + S("fname", 1) + std::string{".mp3"};
    uint64_t nw = verif_param("wave");
    if (nw)
    {   // the waveform is resampled using the recommended extents: sample count and rate are concrete when a waveform is given
        s.sample_count = 1000000ull; s.sample_rate = 44100.0;
        for (uint64_t i = 0; i < nw; ++i) { waveform_entry w; w.low.value = verif_u8("w.low"); w.mid.value = verif_u8("w.mid"); w.high.value = verif_u8("w.high"); s.waveform.push_back(w); }
    }
    else
    {
        if (present()) s.sample_count = foc(1, 16) ? verif_u64("sample_count") : 5000000ull;
        if (present()) s.sample_rate = D(1, "sample_rate", 48000.0, 17);
    }
    s.title = OS("title");
    if (present()) s.track_number = I32(3, "track_number", 7);
    if (present()) s.year = I32(3, "year", 1999);
    return s;
}

// the statement's normalisation, field by field (written from the property text and the public header comments)
static std::optional<double> n_zero_is_none(const std::optional<double>& v) { std::optional<double> r; if (v && !(*v == 0)) r = *v; return r; }
static track_snapshot norm(const track_snapshot& s)
{
    track_snapshot n = s;
    n.average_loudness = n_zero_is_none(s.average_loudness);           // 0 = no loudness
    n.main_cue = n_zero_is_none(s.main_cue);                           // 0 = no main cue
    n.sample_rate = n_zero_is_none(s.sample_rate);                     // 0 = no sample rate
    if (s.sample_count && *s.sample_count == 0) n.sample_count = std::nullopt;
    if (s.duration) { auto secs = s.duration->count() / 1000; if (secs == 0 && verif_param("gen") != 1) n.duration.reset(); else n.duration = std::chrono::milliseconds{secs * 1000}; }   // whole seconds (2.x: non-null column, 0 = no duration; 1.x keeps a zero length)
    if (s.last_played_at) n.last_played_at = tp_t{std::chrono::seconds{std::chrono::duration_cast<std::chrono::seconds>(s.last_played_at->time_since_epoch()).count()}};
    if (s.rating) { int r = *s.rating < 0 ? 0 : (*s.rating > 100 ? 100 : *s.rating); if (r == 0 && verif_param("gen") != 1) n.rating.reset(); else n.rating = r; }   // clamped to 0..100; 2.x: 0 = no rating (non-null column), 1.x stores an absent rating as NULL and keeps 0
    if (verif_param("gen") == 1 && verif_param("schema") < 7) n.file_bytes.reset();      // the fileBytes column exists from schema 1.15.0 on
    n.hot_cues.clear();
    for (auto& c : s.hot_cues) n.hot_cues.push_back((c && c->sample_offset == -1) ? std::nullopt : c);      // -1 = empty cue slot
    while (n.hot_cues.size() < 8) n.hot_cues.push_back(std::nullopt);                                          // padded to eight slots
    n.loops = s.loops;
    if (verif_param("gen") == 1) for (auto& l : n.loops) if (l && l->start_sample_offset == -1) l.reset();     // 1.x: start offset -1 = empty loop slot
    while (n.loops.size() < 8) n.loops.push_back(std::nullopt);
    return n;
}
static bool sk_has(const char* skip, const char* n)
{
    for (const char* p = skip; *p; ++p)
    {
        if (p != skip && p[-1] != ',') continue;
        size_t i = 0; while (n[i] && p[i] == n[i]) ++i;
        if (!n[i] && p[i] == ',') return true;
    }
    return false;
}
#define F(c, name) verif_assert((c), "snapshot." name " differs")
static void eq_snapshot(const track_snapshot& a, const track_snapshot& b, const char* skip = "", bool with_waveform = true)
{
#define SK(n) sk_has(skip, n)
    if (!SK("album")) F(eq_os(a.album, b.album), "album");
    if (!SK("artist")) F(eq_os(a.artist, b.artist), "artist");
    if (!SK("average_loudness")) F(eq_od(a.average_loudness, b.average_loudness), "average_loudness");
    if (!SK("beatgrid"))
    {
        F(a.beatgrid.size() == b.beatgrid.size(), "beatgrid size");
        for (size_t i = 0; i < a.beatgrid.size() && i < b.beatgrid.size(); ++i) F(a.beatgrid[i].index == b.beatgrid[i].index && B(a.beatgrid[i].sample_offset) == B(b.beatgrid[i].sample_offset), "beatgrid marker");
    }
    if (!SK("bitrate")) F(a.bitrate == b.bitrate, "bitrate");
    if (!SK("bpm")) F(eq_od(a.bpm, b.bpm), "bpm");
    if (!SK("comment")) F(eq_os(a.comment, b.comment), "comment");
    if (!SK("composer")) F(eq_os(a.composer, b.composer), "composer");
    if (!SK("duration")) F(a.duration == b.duration, "duration");
    if (!SK("file_bytes")) F(a.file_bytes == b.file_bytes, "file_bytes");
    if (!SK("genre")) F(eq_os(a.genre, b.genre), "genre");
    if (!SK("hot_cues"))
    {
        F(a.hot_cues.size() == b.hot_cues.size(), "hot_cues size");
        for (size_t i = 0; i < a.hot_cues.size() && i < b.hot_cues.size(); ++i)
        {
            F(a.hot_cues[i].has_value() == b.hot_cues[i].has_value(), "hot cue slot presence");
            if (a.hot_cues[i] && b.hot_cues[i]) F(same_str(a.hot_cues[i]->label, b.hot_cues[i]->label) && B(a.hot_cues[i]->sample_offset) == B(b.hot_cues[i]->sample_offset) && a.hot_cues[i]->color == b.hot_cues[i]->color, "hot cue");
        }
    }
    if (!SK("key")) F(a.key == b.key, "key");
    if (!SK("last_played_at")) F(a.last_played_at == b.last_played_at, "last_played_at");
    if (!SK("loops"))
    {
        F(a.loops.size() == b.loops.size(), "loops size");
        for (size_t i = 0; i < a.loops.size() && i < b.loops.size(); ++i)
        {
            F(a.loops[i].has_value() == b.loops[i].has_value(), "loop slot presence");
            if (a.loops[i] && b.loops[i]) F(same_str(a.loops[i]->label, b.loops[i]->label) && B(a.loops[i]->start_sample_offset) == B(b.loops[i]->start_sample_offset) && B(a.loops[i]->end_sample_offset) == B(b.loops[i]->end_sample_offset) && a.loops[i]->color == b.loops[i]->color, "loop");
        }
    }
    if (!SK("main_cue")) F(eq_od(a.main_cue, b.main_cue), "main_cue");
    if (!SK("publisher")) F(eq_os(a.publisher, b.publisher), "publisher");
    if (!SK("rating")) F(a.rating == b.rating, "rating");
    if (!SK("relative_path")) F(eq_os(a.relative_path, b.relative_path), "relative_path");
    if (!SK("sample_count")) F(a.sample_count == b.sample_count, "sample_count");
    if (!SK("sample_rate")) F(eq_od(a.sample_rate, b.sample_rate), "sample_rate");
    if (!SK("title")) F(eq_os(a.title, b.title), "title");
    if (!SK("track_number")) F(a.track_number == b.track_number, "track_number");
    if (!SK("year")) F(a.year == b.year, "year");
    if (with_waveform && !SK("waveform"))
    {
        F(a.waveform.size() == b.waveform.size(), "waveform size");
        for (size_t i = 0; i < a.waveform.size() && i < b.waveform.size(); ++i) F(a.waveform[i].low.value == b.waveform[i].low.value && a.waveform[i].mid.value == b.waveform[i].mid.value && a.waveform[i].high.value == b.waveform[i].high.value, "waveform entry");
    }
#undef SK
}
static void run_c01(djinterop::database& dbi)
{
    track_snapshot s = sym_snapshot();
    std::optional<djinterop::track> t;
    bool update_path = verif_param("via_update") != 0;
    try
    {
        if (update_path)
        {   // update over a previously stored (different) snapshot
            // (sparse runs: the stored snapshot is fully populated with concrete values - what matters is that update() replaces all of it)
            if (verif_param("sparse")) g_focus_override = 99;
            g_opt = 23; track_snapshot s0 = sym_snapshot();
            g_focus_override = 0;
            t = dbi.create_track(s0);
            t->update(s);
        }
        else t = dbi.create_track(s);
    }
    catch (const std::exception&) { verif_reach("write-rejected"); return; }
    verif_reach("written");
    track_snapshot s1 = t->snapshot();
    bool resampled = !s.waveform.empty();
    // schema 1.x: when a BPM can be derived from the first two beat grid markers and the sample rate, the stored BPM is that derived value (not "as given")
    bool derived_bpm = verif_param("gen") == 1 && s.beatgrid.size() >= 2;
    eq_snapshot(norm(s), s1, resampled ? (derived_bpm ? "waveform,bpm," : "waveform,") : (derived_bpm ? "bpm," : ""));
    verif_reach("compared");
    t->update(s1);
    track_snapshot s2 = t->snapshot();
    eq_snapshot(s1, s2);
    verif_reach("fixed-point");
}

// ---- C06: one setter on a track created from an arbitrary snapshot; getter == value == snapshot field; nothing else moves
// a setter may reject its argument with an exception (e.g. the 1.x layer refuses a loop that would not survive encoding): then nothing is asserted about the getter
#define TRYSET(x) try { x; } catch (const std::exception&) { verif_reach("setter-rejected"); rejected = true; } if (rejected) break;
#define SETTER(idx, field, setcall, getexpr, cmp)                                                                                  \
    case idx:                                                                                                                     \
    {                                                                                                                             \
        TRYSET(setcall)                                                                                                           \
        track_snapshot after = t.snapshot();                                                                                      \
        track_snapshot want = before; want.field = v.field; want = norm(want);                                                    \
        verif_assert(cmp(getexpr, want.field), "C06: getter after set_" #field " does not return the (normalised) value set");    \
        eq_snapshot(want, after, "", verif_param("wave") != 0);      /* a stored waveform must survive every other setter */             \
        break;                                                                                                                    \
    }
static bool c_os(const std::optional<std::string>& a, const std::optional<std::string>& b) { return eq_os(a, b); }
static bool c_od(const std::optional<double>& a, const std::optional<double>& b) { return eq_od(a, b); }
template <class X, class Y> static bool c_eq(const X& a, const Y& b) { return a == b; }
static void run_c06(djinterop::database& dbi)
{
    track_snapshot s0 = sym_snapshot();
    g_opt = 31; track_snapshot so = sym_snapshot();          // "any other track"
    djinterop::track t = dbi.create_track(s0);
    djinterop::track other = dbi.create_track(so);
    track_snapshot before = t.snapshot();
    track_snapshot other_before = other.snapshot();
    g_cues = verif_param("vcues"); g_loops = verif_param("vloops");       // the new cue / loop lists have their own slot pattern (shorter, longer, other slots than the stored ones)
    g_opt = 11; track_snapshot v = sym_snapshot();           // source of new values
    int slot = (int)verif_param("slot");
    bool rejected = false;
    if (verif_param("wave") != 0)
    {   // (sym_snapshot keeps sample count / rate concrete next to a waveform; the NEW values of the waveform-kept jobs are symbolic all the same)
        if (verif_param("op") == 15) v.sample_rate = (double)verif_range_u32(1, 1u << 20, "new_rate");
        if (verif_param("op") == 14) v.sample_count = verif_range_u64(1, 1ull << 40, "new_count");
    }
    verif_reach("prepared");
    switch (verif_param("op"))
    {
        SETTER(0, album, t.set_album(v.album), t.album(), c_os)
        SETTER(1, artist, t.set_artist(v.artist), t.artist(), c_os)
        SETTER(2, average_loudness, t.set_average_loudness(v.average_loudness), t.average_loudness(), c_od)
        SETTER(3, bitrate, t.set_bitrate(v.bitrate), t.bitrate(), c_eq)
        SETTER(4, bpm, t.set_bpm(v.bpm), t.bpm(), c_od)
        SETTER(5, comment, t.set_comment(v.comment), t.comment(), c_os)
        SETTER(6, composer, t.set_composer(v.composer), t.composer(), c_os)
        SETTER(7, duration, t.set_duration(v.duration), t.duration(), c_eq)
        SETTER(8, genre, t.set_genre(v.genre), t.genre(), c_os)
        SETTER(9, key, t.set_key(v.key), t.key(), c_eq)
        SETTER(10, last_played_at, t.set_last_played_at(v.last_played_at), t.last_played_at(), c_eq)
        SETTER(11, main_cue, t.set_main_cue(v.main_cue), t.main_cue(), c_od)
        SETTER(12, publisher, t.set_publisher(v.publisher), t.publisher(), c_os)
        SETTER(13, rating, t.set_rating(v.rating), t.rating(), c_eq)
        SETTER(14, sample_count, t.set_sample_count(v.sample_count), t.sample_count(), c_eq)
        SETTER(15, sample_rate, t.set_sample_rate(v.sample_rate), t.sample_rate(), c_od)
        SETTER(16, title, t.set_title(v.title), t.title(), c_os)
        SETTER(17, track_number, t.set_track_number(v.track_number), t.track_number(), c_eq)
        SETTER(18, year, t.set_year(v.year), t.year(), c_eq)
        case 19:
        {   // whole hot cue list
            TRYSET(t.set_hot_cues(v.hot_cues))
            track_snapshot after = t.snapshot(); track_snapshot want = before; want.hot_cues = v.hot_cues; want = norm(want);
            auto got = t.hot_cues(); track_snapshot g = want; g.hot_cues = got;
            eq_snapshot(want, g, "", false); eq_snapshot(want, after, "", false); break;
        }
        case 20:
        {   // one hot cue slot
            std::optional<hot_cue> c; if (!v.hot_cues.empty()) c = v.hot_cues[0];
            TRYSET(t.set_hot_cue_at(slot, c))
            track_snapshot after = t.snapshot(); track_snapshot want = before; want.hot_cues[slot] = c; want = norm(want);
            auto got = t.hot_cue_at(slot); track_snapshot g = want; g.hot_cues[slot] = got;
            eq_snapshot(want, g, "", false); eq_snapshot(want, after, "", false); break;
        }
        case 21:
        {
            TRYSET(t.set_loops(v.loops))
            track_snapshot after = t.snapshot(); track_snapshot want = before; want.loops = v.loops; want = norm(want);
            auto got = t.loops(); track_snapshot g = want; g.loops = got;
            eq_snapshot(want, g, "", false); eq_snapshot(want, after, "", false); break;
        }
        case 22:
        {
            std::optional<loop> l; if (!v.loops.empty()) l = v.loops[0];
            TRYSET(t.set_loop_at(slot, l))
            track_snapshot after = t.snapshot(); track_snapshot want = before; want.loops[slot] = l; want = norm(want);
            auto got = t.loop_at(slot); track_snapshot g = want; g.loops[slot] = got;
            eq_snapshot(want, g, "", false); eq_snapshot(want, after, "", false); break;
        }
        case 23:
        {
            TRYSET(t.set_beatgrid(v.beatgrid))
            track_snapshot after = t.snapshot(); track_snapshot want = before; want.beatgrid = v.beatgrid;
            auto got = t.beatgrid(); track_snapshot g = want; g.beatgrid = got;
            eq_snapshot(want, g, "", false); eq_snapshot(want, after, "", false); break;
        }
        case 24:
        {
            std::string nm = S("newname", 1);
            verif_assume(nm[0] != '/' && nm[0] != '.');      // the symbolic byte is part of the file name, not a separator
            std::string p = std::string{"new/"} + nm + std::string{".flac"};
            TRYSET(t.set_relative_path(p))
            track_snapshot after = t.snapshot(); track_snapshot want = before; want.relative_path = p;
            verif_assert(same_str(t.relative_path(), p), "C06: relative_path getter");
            verif_assert(same_str(t.filename(), p.substr(4)) && same_str(t.file_extension(), "flac"), "C06: file name / extension derived from the new relative path");
            eq_snapshot(want, after, "", false); break;
        }
        default: verif_fail("unknown op");
    }
    if (!rejected) verif_reach("setter-checked");
    track_snapshot other_after = other.snapshot();
    eq_snapshot(other_before, other_after);
    verif_reach("other-track-checked");
}
