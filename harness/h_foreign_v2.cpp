// C04 (setter half): "reading a track, changing one field and writing it back never alters or drops data this library does not
// understand".  A schema-2.x track gets FOREIGN performance blobs through the public table API (entry counts this library never
// writes - 10 loops, 9 or 10 hot cues -, arbitrary flag bytes, trailing extra data, all field values symbolic); then ONE high-level setter
// of djinterop::track runs and the stored blobs are read back through the table API: every blob the setter does not own must be
// unchanged field for field, and inside the blob it owns only its own field may differ (entry count, other entries, extra data kept).
#include "verif.h"
#include "v2_unity.h"
#include "h_blobs_v2.h"
static void seed_information(v2_fixture& fx)
{
    fx.ctx->db << "INSERT INTO Information (id, uuid, schemaVersionMajor, schemaVersionMinor, schemaVersionPatch, currentPlayedIndiciator, lastRekordBoxLibraryImportReadCounter) VALUES (?, ?, ?, ?, ?, ?, ?)"
               << (int64_t)1 << std::string{"uuid-1"} << (int64_t)2 << (int64_t)21 << (int64_t)2 << (int64_t)0 << (int64_t)0;
}
static void eq_cue(const quick_cue_blob& a, const quick_cue_blob& b, const char* what)
{
    EQ(same_str(a.label, b.label) && B(a.sample_offset) == B(b.sample_offset) && a.color.r == b.color.r && a.color.g == b.color.g && a.color.b == b.color.b && a.color.a == b.color.a, what);
}
static void eq_loop(const loop_blob& a, const loop_blob& b, const char* what)
{
    EQ(same_str(a.label, b.label) && B(a.start_sample_offset) == B(b.start_sample_offset) && B(a.end_sample_offset) == B(b.end_sample_offset) && a.is_start_set == b.is_start_set &&
           a.is_end_set == b.is_end_set && a.color.r == b.color.r && a.color.g == b.color.g && a.color.b == b.color.b && a.color.a == b.color.a, what);
}
extern "C" void h_c04_setter()
{
    v2_fixture fx; seed_information(fx);
    djinterop::database db{std::make_shared<v2::database_impl>(fx.lib)};
    track_snapshot s; s.relative_path = std::string{"a/b.mp3"};
    djinterop::track t = db.create_track(s);
    auto tt = fx.lib->track();
    const int64_t id = t.id();
    // foreign blobs (sizes from the run parameters k1 / k2 / ll / extra of h_blobs_v2.h)
    const quick_cues_blob fc = sym_cues(); const loops_blob fl = sym_loops(); const beat_data_blob fb = sym_beat(); const track_data_blob ft = sym_track();
    tt.set_quick_cues(id, fc); tt.set_loops(id, fl); tt.set_beat_data(id, fb); tt.set_track_data(id, ft);
    verif_reach("foreign-stored");
    const int slot = (int)verif_param("slot"); const uint64_t op = verif_param("op");
    bool present = verif::boolean("present");
    bool threw = false;
    try
    {
        switch (op)
        {
            case 0:
            {
                std::optional<loop> l;
                if (present) l = loop{sym_string(1, "label"), verif::f64("start"), verif::f64("end"), sym_color()};
                t.set_loop_at(slot, l); break;
            }
            case 1:
            {
                std::optional<hot_cue> c;
                if (present) c = hot_cue{sym_string(1, "label"), verif::f64("offset"), sym_color()};
                t.set_hot_cue_at(slot, c); break;
            }
            case 2: t.set_main_cue(present ? std::make_optional(verif::f64("cue")) : std::nullopt); break;
            case 3: t.set_average_loudness(present ? std::make_optional(verif::f64("loudness")) : std::nullopt); break;
            case 4: t.set_key(present ? std::make_optional(static_cast<musical_key>(verif_range_u32(0, 23, "key"))) : std::nullopt); break;
            case 5: t.set_sample_rate(present ? std::make_optional((double)verif_range_u32(1, 1u << 20, "rate")) : std::nullopt); break;
            case 6: t.set_sample_count(present ? std::make_optional((unsigned long long)verif_range_u64(1, 1ull << 40, "count")) : std::nullopt); break;
            case 7: t.set_title(std::string{"x"}); break;
            case 8: t.set_bpm(present ? std::make_optional((double)verif_range_u32(1, 1000, "bpm")) : std::nullopt); break;
            default: verif_fail("unknown op");
        }
    }
    catch (const std::exception&) { threw = true; }      // a setter may refuse its value; then nothing may have changed (checked below all the same)
    verif_reach("setter-ran");
    const quick_cues_blob gc = tt.get_quick_cues(id); const loops_blob gl = tt.get_loops(id); const beat_data_blob gb = tt.get_beat_data(id); const track_data_blob gt = tt.get_track_data(id);
    // ---- loops
    if (op == 0 && !threw)
    {
        EQ(gl.loops.size() == fl.loops.size(), "C04: a per-slot setter changed the number of loop entries of a foreign blob");
        for (size_t i = 0; i < fl.loops.size() && i < gl.loops.size(); ++i) if ((int)i != slot) eq_loop(gl.loops[i], fl.loops[i], "C04: set_loop_at altered another loop entry of a foreign blob");
        EQ(same_bytes(gl.extra_data, fl.extra_data), "C04: set_loop_at dropped or altered trailing data of a foreign loops blob");
    }
    else eq(gl, fl);
    // ---- quick cues
    if ((op == 1 || op == 2) && !threw)
    {
        EQ(gc.quick_cues.size() == fc.quick_cues.size(), "C04: a per-slot setter changed the number of hot cue entries of a foreign blob");
        for (size_t i = 0; i < fc.quick_cues.size() && i < gc.quick_cues.size(); ++i) if (op == 2 || (int)i != slot) eq_cue(gc.quick_cues[i], fc.quick_cues[i], "C04: the setter altered another hot cue entry of a foreign blob");
        if (op == 1) EQ(B(gc.adjusted_main_cue) == B(fc.adjusted_main_cue) && B(gc.default_main_cue) == B(fc.default_main_cue) && gc.is_main_cue_adjusted == fc.is_main_cue_adjusted, "C04: set_hot_cue_at altered the main cue fields");
        EQ(same_bytes(gc.extra_data, fc.extra_data), "C04: the setter dropped or altered trailing data of a foreign quick cues blob");
    }
    else eq(gc, fc);
    // ---- track data
    if ((op == 3 || op == 4 || op == 5 || op == 6) && !threw)
    {
        if (op != 5) EQ(B(gt.sample_rate) == B(ft.sample_rate), "C04: the setter altered trackData.sample_rate");
        if (op != 6) EQ(gt.samples == ft.samples, "C04: the setter altered trackData.samples");
        if (op != 4) EQ(gt.key == ft.key, "C04: the setter altered trackData.key");
        if (op != 3) EQ(B(gt.average_loudness_low) == B(ft.average_loudness_low) && B(gt.average_loudness_mid) == B(ft.average_loudness_mid) && B(gt.average_loudness_high) == B(ft.average_loudness_high), "C04: the setter altered trackData loudness");
        EQ(same_bytes(gt.extra_data, ft.extra_data), "C04: the setter dropped or altered trailing data of a foreign track data blob");
    }
    else eq(gt, ft);
    // ---- beat data
    if ((op == 5 || op == 6) && !threw)
    {
        beat_data_blob w = fb;
        if (op == 5) w.sample_rate = gb.sample_rate; else w.samples = gb.samples;
        eq(gb, w);
    }
    else eq(gb, fb);
    verif_reach("compared");
}
