// C18 (schema 2.x), the playlist / playlist-entity / information part of the table-level API (public headers
// djinterop/engine/v2/{playlist_table,playlist_entity_table,information_table}.hpp) over the relational sqlite3 model:
// a row read back after add() / update() equals the row written apart from the assigned id and what the database itself maintains
// (the successor columns of the *other* rows, the isPersisted propagation of the schema's triggers); an operation naming a nonexistent
// row reports it.  Every field of the written row is symbolic (title byte, parent / successor among the existing lists, both flags,
// the edit time as whole seconds, entity track id / database uuid / membership reference).
#include "verif.h"
extern "C" uint64_t verif_param(const char*);
#ifdef VERIF_NATIVE
#include <djinterop/djinterop.hpp>
#include <djinterop/engine/v2/engine_library.hpp>
#include <algorithm>
using namespace djinterop::engine;
using namespace djinterop::engine::v2;
static engine_library make_lib()
{
    static const engine_schema v[] = {engine_schema::schema_2_18_0, engine_schema::schema_2_20_1, engine_schema::schema_2_20_2, engine_schema::schema_2_20_3,
                                      engine_schema::schema_2_21_0, engine_schema::schema_2_21_1, engine_schema::schema_2_21_2};
    return engine_library::create_temporary(v[verif_param("schema") > 6 ? 6 : verif_param("schema")]);
}
#define LIB(l) auto l = make_lib()
#define INFO_ROW(l)
#else
#include "v2_unity.h"
#include <algorithm>
#define LIB(l) v2_fixture fx_; auto& l = *fx_.lib
#define INFO_ROW(l) fx_.ctx->db << "INSERT INTO Information (id, uuid, schemaVersionMajor, schemaVersionMinor, schemaVersionPatch, currentPlayedIndiciator, lastRekordBoxLibraryImportReadCounter) VALUES (?, ?, ?, ?, ?, ?, ?)" \
               << (int64_t)1 << std::string{"uuid-1"} << (int64_t)2 << (int64_t)21 << (int64_t)2 << (int64_t)0 << (int64_t)0
#endif
#define CK(c, msg) verif_assert((c), msg)
using tp_t = std::chrono::system_clock::time_point;
static tp_t tp_of(uint64_t s) { return tp_t{std::chrono::seconds{(int64_t)s}}; }
static int pick(int n, const char* what)
{
    uint32_t v = verif_range_u32(0, (uint32_t)(n - 1), what);
    for (int i = 0; i < n - 1; ++i) if (v == (uint32_t)i) return i;
    return n - 1;
}
static bool same_s(const std::string& a, const std::string& b)
{
    if (a.size() != b.size()) return false;
    unsigned d = 0; for (size_t i = 0; i < a.size(); ++i) d |= (unsigned char)(a[i] ^ b[i]);
    return d == 0;
}
// (a title with an embedded NUL does not survive the C-string extraction of sqlite_modern_cpp: outside the stated domain)
static std::string sym_title(const char* n) { uint8_t c = verif_u8(n); verif_assume(c != 0); return std::string(1, (char)c); }
static bool valid_name(const std::string& s) { if (s.empty()) return false; for (char c : s) if (c == ';') return false; return true; }
// the fields a caller chooses; id is assigned, next_list_id of OTHER rows is maintained by the database
static void eq_own(const playlist_row& got, const playlist_row& want, const char* when)
{
    (void)when;
    CK(got.id == want.id, "C18: playlist row read back under a different id");
    CK(same_s(got.title, want.title), "C18: playlist title read back differs from the title written");
    CK(got.parent_list_id == want.parent_list_id, "C18: playlist parent_list_id read back differs from the value written");
    CK(got.is_persisted == want.is_persisted, "C18: playlist is_persisted read back differs from the value written");
    CK(got.next_list_id == want.next_list_id, "C18: playlist next_list_id read back differs from the value written");
    CK(got.last_edit_time == want.last_edit_time, "C18: playlist last_edit_time read back differs from the (whole-second) time written");
    CK(got.is_explicitly_exported == want.is_explicitly_exported, "C18: playlist is_explicitly_exported read back differs from the value written");
}
// another row after an operation on a different row: everything but the successor column and the persisted flag (trigger-maintained) is untouched
static void eq_other(const std::optional<playlist_row>& got, const playlist_row& was)
{
    CK(got.has_value(), "C18: an operation on one playlist row made another row vanish");
    if (!got) return;
    CK(got->id == was.id && same_s(got->title, was.title) && got->parent_list_id == was.parent_list_id && got->last_edit_time == was.last_edit_time &&
           got->is_explicitly_exported == was.is_explicitly_exported,
       "C18: an operation on one playlist row changed a caller-owned column of another row");
}
struct world
{
    int64_t id[4]; playlist_row row[4];      // a, b roots; c, d children of a
    // siblings under parent choice p (0: root, 1: a, 2: b)
    int nsib(int p) const { return p == 2 ? 0 : 2; }
    int64_t sib(int p, int i) const { return p == 0 ? id[i] : id[2 + i]; }
    int64_t parent(int p) const { return p == 0 ? PARENT_LIST_ID_NONE : id[p - 1]; }
    const std::string& sibname(int p, int i) const { return p == 0 ? row[i].title : row[2 + i].title; }
};
extern "C" void h_playlist_row()
{
    LIB(lib);
    auto pl = lib.playlist();
    world w;
    const char* names[4] = {"a", "b", "c", "d"};
    for (int i = 0; i < 4; ++i)
    {
        playlist_row r{PLAYLIST_ROW_ID_NONE, names[i], i < 2 ? PARENT_LIST_ID_NONE : w.id[0], true, PLAYLIST_NO_NEXT_LIST_ID, tp_of(1000 + i), i % 2 == 0};
        w.id[i] = pl.add(r);
    }
    for (int i = 0; i < 4; ++i) { auto g = pl.get(w.id[i]); CK(g.has_value(), "C18: get() of a row just added is empty"); if (!g) return; w.row[i] = *g; }
    verif_reach("prefix");

    // ---- add(): every field symbolic
    int p = verif_param("padd") < 3 ? (int)verif_param("padd") : pick(3, "parent");      // (the check may split the run by the parent of the added row)
    int nx = pick(w.nsib(p) + 1, "next");           // 0 .. nsib-1: before that sibling; nsib: at the end
    playlist_row r{PLAYLIST_ROW_ID_NONE, sym_title("title"), w.parent(p), verif::boolean("persisted"),
                   nx < w.nsib(p) ? w.sib(p, nx) : PLAYLIST_NO_NEXT_LIST_ID, tp_of(verif_range_u64(0, 1ull << 32, "time")), verif::boolean("exported")};
    bool dup = false; for (int i = 0; i < w.nsib(p); ++i) dup = dup || same_s(w.sibname(p, i), r.title);
    bool legal = valid_name(r.title) && !dup;
    bool threw = false; int64_t id = 0;
    try { id = pl.add(r); } catch (const std::exception&) { threw = true; }
    if (threw)
    {
        CK(!legal, "C18: add() of a well-formed playlist row failed");
        for (int i = 0; i < 4; ++i) { auto g = pl.get(w.id[i]); eq_other(g, w.row[i]); if (g) CK(g->next_list_id == w.row[i].next_list_id, "C18: a failed add() changed the sibling chain"); }
        verif_reach("add-refused");
        return;
    }
    r.id = id;
    for (int i = 0; i < 4; ++i) CK(id != w.id[i], "C18: add() returned the id of an existing row");
    auto g = pl.get(id);
    CK(g.has_value() && pl.exists(id), "C18: get() / exists() do not find the row add() returned");
    if (!g) return;
    eq_own(*g, r, "add");
    for (int i = 0; i < 4; ++i) eq_other(pl.get(w.id[i]), w.row[i]);
    verif_reach("added");

    // ---- update(): every caller-owned field symbolic; the position may stay or move
    int p2 = pick(3, "parent2");
    playlist_row u = r;
    u.title = sym_title("title2");
    u.is_persisted = verif::boolean("persisted2"); u.is_explicitly_exported = verif::boolean("exported2");
    u.last_edit_time = tp_of(verif_range_u64(0, 1ull << 32, "time2"));
    bool stay = verif::boolean("stay");
    if (!stay)
    {
        int nx2 = pick(w.nsib(p2) + 1, "next2");
        u.parent_list_id = w.parent(p2);
        u.next_list_id = nx2 < w.nsib(p2) ? w.sib(p2, nx2) : PLAYLIST_NO_NEXT_LIST_ID;
    }
    else p2 = p;
    bool dup2 = false; for (int i = 0; i < w.nsib(p2); ++i) dup2 = dup2 || same_s(w.sibname(p2, i), u.title);
    bool legal2 = valid_name(u.title) && !dup2;
    threw = false;
    try { pl.update(u); } catch (const std::exception&) { threw = true; }
    auto g2 = pl.get(id);
    CK(g2.has_value(), "C18: the row vanished in update()");
    if (!g2) return;
    if (threw) { CK(!legal2, "C18: update() of a well-formed playlist row failed"); eq_own(*g2, r, "failed update"); }
    else eq_own(*g2, u, "update");
    for (int i = 0; i < 4; ++i) eq_other(pl.get(w.id[i]), w.row[i]);
    verif_reach("updated");

    // ---- a nonexistent row
    int64_t ghost = id + 40;
    CK(!pl.exists(ghost) && !pl.get(ghost).has_value(), "C18: get() / exists() find a row that was never written");
    playlist_row gr = u; gr.id = ghost; threw = false;
    try { pl.update(gr); } catch (const std::exception&) { threw = true; }
    CK(threw, "C18: update() naming a nonexistent playlist row silently succeeded");
    CK(!pl.exists(ghost), "C18: update() naming a nonexistent row created one");

    // ---- remove()
    pl.remove(id);
    CK(!pl.exists(id) && !pl.get(id).has_value(), "C18: remove() left the playlist row");
    for (int i = 0; i < 4; ++i) eq_other(pl.get(w.id[i]), w.row[i]);
    verif_reach("removed");
}

static bool same_entity(const playlist_entity_row& got, const playlist_entity_row& want)
{
    return got.list_id == want.list_id && got.track_id == want.track_id && same_s(got.database_uuid, want.database_uuid) &&
           got.membership_reference == want.membership_reference;
}
extern "C" void h_entity_row()
{
    LIB(lib);
    auto pl = lib.playlist(); auto pe = lib.playlist_entity();
    int64_t lists[2];
    for (int i = 0; i < 2; ++i)
        lists[i] = pl.add(playlist_row{PLAYLIST_ROW_ID_NONE, std::string(1, (char)('a' + i)), PARENT_LIST_ID_NONE, true, PLAYLIST_NO_NEXT_LIST_ID, tp_t{}, true});
    std::vector<playlist_entity_row> have;       // reference: every entity written, with its assigned id
    int n = (int)verif_param("n");
    bool tid = verif_param("throw_if_duplicate") != 0;
    for (int k = 0; k < n; ++k)
    {
        playlist_entity_row r{PLAYLIST_ENTITY_ROW_ID_NONE, lists[pick(2, "list")], (int64_t)verif_range_u64(1, 3, "track"),
                              std::string("uuid-") + (char)('0' + pick(2, "uuid")), (int64_t)verif_u64("next_entity_id"), (int64_t)verif_u64("membership_reference")};
        const playlist_entity_row* old = nullptr;
        for (auto& h : have) if (h.list_id == r.list_id && h.track_id == r.track_id && same_s(h.database_uuid, r.database_uuid)) old = &h;
        bool threw = false; int64_t id = 0;
        try { id = pe.add_back(r, tid); } catch (const std::exception&) { threw = true; }
        if (old)
        {
            if (tid) CK(threw, "C18: add_back(throw_if_duplicate) of an entity that exists did not throw");
            else CK(!threw && id == old->id, "C18: add_back of an entity that exists does not return its id");
        }
        else
        {
            CK(!threw, "C18: add_back() of a new playlist entity failed");
            if (threw) return;
            for (auto& h : have) CK(h.id != id, "C18: add_back() of a new entity returned the id of another entity");
            r.id = id; have.push_back(r);
        }
        // read everything back: each entity written is there under its id with the fields written
        for (int l = 0; l < 2; ++l)
        {
            auto rows = pe.get_for_list(lists[l]);
            size_t cnt = 0; for (auto& h : have) cnt += h.list_id == lists[l];
            CK(rows.size() == cnt, "C18: get_for_list() does not return exactly the entities written to the list");
            for (auto& h : have)
            {
                if (h.list_id != lists[l]) continue;
                int found = 0;
                for (auto& g : rows) if (g.id == h.id) { ++found; CK(same_entity(g, h), "C18: a playlist entity read back differs from the row written"); }
                CK(found == 1, "C18: a playlist entity written is not read back exactly once under its id");
            }
        }
    }
    verif_reach("added");
    // get(list, track) where the pair is unambiguous
    for (auto& h : have)
    {
        int amb = 0; for (auto& o : have) amb += o.list_id == h.list_id && o.track_id == h.track_id;
        if (amb != 1) continue;
        auto g = pe.get(h.list_id, h.track_id);
        CK(g.has_value() && g->id == h.id && same_entity(*g, h), "C18: get(list, track) differs from the row written");
    }
    CK(!pe.get(lists[0] + 40, 1).has_value() && !pe.get(lists[0], 77).has_value(), "C18: get() finds a playlist entity that was never written");
    // remove(list, track): every entity of that pair goes, nothing else
    if (verif_param("then") == 1 && !have.empty())
    {
        int l = pick(2, "rlist"); int64_t t = (int64_t)verif_range_u64(1, 3, "rtrack");
        pe.remove(lists[l], t);
        std::vector<playlist_entity_row> keep; for (auto& h : have) if (!(h.list_id == lists[l] && h.track_id == t)) keep.push_back(h);
        have = keep;
    }
    else if (verif_param("then") == 2)
    {
        int l = pick(2, "clist"); pe.clear(lists[l]);
        std::vector<playlist_entity_row> keep; for (auto& h : have) if (h.list_id != lists[l]) keep.push_back(h);
        have = keep;
    }
    for (int l = 0; l < 2; ++l)
    {
        auto rows = pe.get_for_list(lists[l]);
        size_t cnt = 0; for (auto& h : have) cnt += h.list_id == lists[l];
        CK(rows.size() == cnt, "C18: after remove() / clear() get_for_list() does not return exactly the remaining entities");
        for (auto& h : have)
        {
            if (h.list_id != lists[l]) continue;
            int found = 0;
            for (auto& g : rows) if (g.id == h.id) { ++found; CK(same_entity(g, h), "C18: remove() / clear() changed another playlist entity"); }
            CK(found == 1, "C18: remove() / clear() lost another playlist entity");
        }
    }
    verif_reach("checked");
}

extern "C" void h_information_row()
{
    LIB(lib);
    INFO_ROW(lib);
    auto info = lib.information();
    auto a = info.get();
    int64_t v = (int64_t)verif_u64("indicator");
    info.update_current_played_indicator(v);
    auto b = info.get();
    CK(b.current_played_indicator == v, "C18: current_played_indicator read back differs from the value written");
    CK(b.id == a.id && same_s(b.uuid, a.uuid) && b.schema_version_major == a.schema_version_major && b.schema_version_minor == a.schema_version_minor &&
           b.schema_version_patch == a.schema_version_patch && b.last_rekord_box_library_import_read_counter == a.last_rekord_box_library_import_read_counter,
       "C18: update_current_played_indicator changed another column of the Information row");
    verif_reach("checked");
}
