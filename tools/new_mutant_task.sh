#!/bin/bash
# new_mutant_task.sh <PROP> <SUFFIX>  - prepare a scratch worktree + self-contained prompt for a sub-agent (round >= 2)
P=$1; S=$2; ID=$P$S; W=/tmp/mut/$ID
mkdir -p /tmp/mut
git -C /repo worktree add --detach $W HEAD >/dev/null 2>&1 || { echo "worktree failed"; exit 1; }
python3 - "$P" "$ID" <<'PY'
import json,sys,os
P,ID=sys.argv[1],sys.argv[2]
prop=[json.loads(l) for l in open('/verif/properties.jsonl') if json.loads(l)['id']==P][0]
json.dump(prop,open('/tmp/mut/%s.property.json'%ID,'w'),indent=1)
tmpl=open('/tmp/mut/C01.prompt').read()
old=json.load(open('/tmp/mut/C01.property.json'))
tmpl=tmpl.replace(json.dumps(old,indent=1),json.dumps(prop,indent=1))
tmpl=tmpl.replace('/tmp/mut/C01.property.json','/tmp/mut/%s.property.json'%ID).replace('/tmp/mut/C01.out','/tmp/mut/%s.out'%ID).replace('/tmp/mut/C01','/tmp/mut/%s'%ID).replace('"property": "C01"','"property": "%s"'%P)
prev=[]
for d in sorted(os.listdir('/verif/seeded')):
    if d.startswith(P+'-'):
        try: prev.append(json.load(open('/verif/seeded/%s/meta.json'%d))['summary'][:500])
        except Exception: pass
if prev:
    tmpl+='\n\nAn earlier round already produced the following change(s) for this property; choose a DIFFERENT mechanism, code site and (if the property spans several schema generations or components) preferably a different one:\n'+'\n'.join(' - '+p for p in prev)+'\n'
open('/tmp/mut/%s.prompt'%ID,'w').write(tmpl)
PY
echo "$W ready; prompt /tmp/mut/$ID.prompt"
