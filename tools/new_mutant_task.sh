#!/bin/bash
# new_mutant_task.sh <PROP> <SUFFIX> [hint]  - prepare a scratch worktree + self-contained prompt for a sub-agent
# prints the prompt file path; the prompt contains the property text only (nothing from /verif besides it)
P=$1; S=$2; HINT=${3:-}; ID=$P$S; W=/tmp/mut/$ID
mkdir -p /tmp/mut /tmp/mut/$ID.out
git -C /repo worktree prune
git -C /repo worktree add --detach $W HEAD >/dev/null 2>&1 || { echo "worktree failed"; exit 1; }
python3 - "$P" "$ID" "$HINT" <<'PY'
import json,sys,os
P,ID,HINT=sys.argv[1],sys.argv[2],sys.argv[3]
prop=[json.loads(l) for l in open('/verif/properties.jsonl') if json.loads(l)['id']==P][0]
W='/tmp/mut/'+ID; O=W+'.out'
t=f"""You are helping to evaluate a verification effort for the C++17 library xsco/libdjinterop (reads and writes Denon Engine DJ SQLite libraries). Your job: produce ONE realistic source change ("seeded change") to the library that BREAKS the semantic property below while the library still compiles and its whole existing test suite still passes - the kind of regression a plausible refactoring, optimisation or 'hardening' commit could introduce and code review could miss.

The property (this text is all you get about the verification effort; do NOT read anything under /verif, it is off limits):

{json.dumps(prop,indent=1)}

Your scratch git worktree of the library is {W} (detached HEAD; work only there; never touch /repo or /verif; never commit).

Requirements for the change:
 * It must need something SPECIFIC to manifest - a particular multi-step sequence of operations, an unusual input or value range, a fault at a particular point, a particular schema version, or two cooperating sites that each look fine alone. NOT something ordinary use or the existing tests would expose at once.
 * It must look like a plausible commit (small, tidy, with an innocent rationale), touch only files under src/ or include/ (not tests, not ext/), and must not add new public API.
 * Build: cd {W} && cmake -S . -G Ninja -B _build -DCMAKE_BUILD_TYPE=RelWithDebInfo >/dev/null && cmake --build _build -j6 . Test: ctest --test-dir _build -j6 --timeout 900 . ALL tests must still pass with your change (9 ctest targets).
 * Write a demonstration: {O}/demo.cpp (uses the library, preferably only its public API under include/; src/ internal headers are acceptable if the property is about internal codecs/tables) and {O}/demo.sh taking the worktree path as $1, which compiles demo.cpp against $1/_build/libdjinterop.so (c++ -std=c++17 -I$1/include -I$1/_build/include -I$1/_build [-I$1/src -I$1/ext/sqlite_modern_cpp] ... -L$1/_build -ldjinterop -lsqlite3 -lz -Wl,-rpath,$1/_build), runs it, and exits non-zero (printing FAIL...) WITH your change and 0 (printing PASS) WITHOUT it. Verify both yourself (git diff > {O}/p.diff; git apply -R {O}/p.diff; rebuild; run; git apply {O}/p.diff; rebuild - do NOT use git stash: the stash is shared with other worktrees of the same repository and other agents work in them). Use mktemp directories for any database it creates and clean them up.
 * Finally write {O}/patch.diff (output of `git diff` in the worktree, change left applied and built in the worktree) and {O}/meta.json with keys: "property": "{P}", "summary" (what the change does and why it looks innocent), "needs_to_manifest" (the specific condition), "files_changed" (list), "tests_run" (the ctest summary line you observed with the change).
 * Keep disk use small; remove temporary build directories of the demo. Do not leave background processes.

Reply with a short summary: the change, the manifest condition, and the observed ctest / demo results.
"""
prev=[]
for d in sorted(os.listdir('/verif/seeded')):
    if d.startswith(P+'-'):
        try: prev.append(json.load(open('/verif/seeded/%s/meta.json'%d))['summary'][:400])
        except Exception: pass
if prev:
    t+='\n\nEarlier rounds already produced the following change(s) for this property; choose a DIFFERENT mechanism and code site (and, if the property spans several schema generations or components, preferably a different one):\n'+'\n'.join(' - '+p for p in prev)+'\n'
if HINT: t+='\nPreference for this round: '+HINT+'\n'
open('/tmp/mut/%s.prompt'%ID,'w').write(t)
PY
echo "/tmp/mut/$ID.prompt"
