#!/bin/bash
# try_mutant.sh <patch.diff> <check id lower, e.g. c05> [tier]  - apply a seeded change to /repo, run the check, undo
set -u
P=$1; C=$2; T=${3:-quick}
cd /repo && git apply --check "$P" || { echo "PATCH DOES NOT APPLY"; exit 3; }
git apply "$P"
mkdir -p /tmp/evsave && cp /verif/evidence/*.json /tmp/evsave/ 2>/dev/null
cd /verif && VERIF_TIER=$T timeout 3600 python3-vt checks/$C.py > /tmp/mut_$C.log 2>&1; rc=$?
git -C /repo checkout -- .
cp /tmp/evsave/*.json /verif/evidence/ 2>/dev/null; rm -rf /tmp/evsave
echo "exit=$rc"; grep -c "^VIOLATION" /tmp/mut_$C.log; grep -A2 "^VIOLATION" /tmp/mut_$C.log | head -8; tail -2 /tmp/mut_$C.log
