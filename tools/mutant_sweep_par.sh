#!/bin/bash
# mutant_sweep_par.sh [-P n] [-j jobs] [ID:check ...]   default: every seeded change against the check of its own property
P=2; J=6
while getopts "P:j:" o; do case $o in P) P=$OPTARG;; j) J=$OPTARG;; esac; done; shift $((OPTIND-1))
PAIRS="$@"
if [ -z "$PAIRS" ]; then for d in $(ls /verif/seeded | grep -v SWEEP); do c=$(echo $d | cut -d- -f1 | tr 'A-Z' 'a-z'); PAIRS="$PAIRS $d:$c"; done; fi
for p in $PAIRS; do echo $p; done | xargs -P $P -I{} bash -c 'x={}; /verif/tools/mutant_one.sh ${x%%:*} ${x##*:} quick '$J
