#!/usr/bin/env python3
"""seeded_table.py - markdown table of the seeded changes and which check reports them (from seeded/*/meta.json and seeded/SWEEP.json)"""
import json, os
V = os.path.dirname(os.path.dirname(os.path.abspath(__file__)))
sw = json.load(open(os.path.join(V, 'seeded', 'SWEEP.json')))
print('| seeded change | what it does | needs | reported by (quick tier) | first line of the report |')
print('|---|---|---|---|---|')
for d in sorted(os.listdir(os.path.join(V, 'seeded'))):
    mp = os.path.join(V, 'seeded', d, 'meta.json')
    if not os.path.exists(mp): continue
    m = json.load(open(mp))
    res = sw.get(d, {})
    hit = [c for c, r in sorted(res.items()) if r.get('exit') == 1]
    miss = [c for c, r in sorted(res.items()) if r.get('exit') != 1]
    by = ', '.join('**%s**' % c.upper() for c in hit) or ('not reported (' + ', '.join('%s: exit %s' % (c.upper(), res[c].get('exit')) for c in miss) + ')' if miss else 'not run')
    first = (res[hit[0]]['first_violation'].strip()[:110] if hit else '').replace('|', '/')
    cut = lambda t, n: (t[:n].rsplit(' ', 1)[0] + ' ...') if len(t) > n else t
    print('| %s | %s | %s | %s | %s |' % (d, cut(m.get('summary', '').replace('|', '/').replace('\n', ' '), 170), cut(str(m.get('needs_to_manifest', '')).replace('|', '/').replace('\n', ' '), 130), by, first))
