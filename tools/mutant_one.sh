#!/bin/bash
# mutant_one.sh <seeded id> <check, e.g. c05> [tier] [jobs]
# Runs one check against one seeded change WITHOUT touching /repo or /verif/evidence: a scratch worktree of /repo's HEAD gets the
# patch, the check runs with VERIF_REPO / VERIF_BUILD / VERIF_OUT pointing at scratch directories, everything is removed afterwards.
# Result is merged into /verif/seeded/SWEEP.json (flock) and the log is kept in /tmp/mw/logs/.
ID=$1; C=$2; T=${3:-quick}; J=${4:-8}
W=/tmp/mw/$ID-$C; mkdir -p /tmp/mw/logs; LOG=/tmp/mw/logs/$ID-$C.log
rm -rf $W $W.build $W.out; git -C /repo worktree prune
git -C /repo worktree add --detach $W HEAD >/dev/null 2>&1 || { echo "$ID $C worktree failed"; exit 3; }
if ! git -C $W apply /verif/seeded/$ID/patch.diff 2>/dev/null; then echo "$ID $C PATCH DOES NOT APPLY"; git -C /repo worktree remove --force $W; exit 3; fi
s=$(date +%s)
( cd /verif && VERIF_REPO=$W VERIF_BUILD=$W.build VERIF_OUT=$W.out VERIF_TIER=$T VERIF_JOBS=$J timeout 5400 python3-vt checks/$C.py ) > $LOG 2>&1; rc=$?
first=$(grep -A1 "^VIOLATION" $LOG | sed -n 2p | cut -c1-220)
nv=$(grep -c "^VIOLATION" $LOG)
echo "$ID $C exit=$rc violations=$nv $(( $(date +%s) - s ))s $first"
flock /tmp/mw/sweep.lock python3 - "$ID" "$C" "$rc" "$first" "$T" <<'PY'
import json,sys,os
p='/verif/seeded/SWEEP.json'
d=json.load(open(p)) if os.path.exists(p) else {}
d.setdefault(sys.argv[1],{})[sys.argv[2]]={'exit':int(sys.argv[3] or -1),'tier':sys.argv[5],'first_violation':sys.argv[4]}
json.dump(d,open(p,'w'),indent=1,sort_keys=True)
PY
git -C /repo worktree remove --force $W; rm -rf $W.build $W.out
exit 0
