#!/bin/bash
# mutant_sweep.sh [ids...] - apply every seeded change in turn, run the check(s) of its property (quick tier), restore /repo and the evidence.
# Writes /verif/seeded/SWEEP.json: {id: {check: exit code / first violation line}}
cd /verif
declare -A EXTRA=( [C01-1]="c03" [C09-1]="c14" [C07-1]="c11" [C08-1]="c11" [C15-1]="c03" )
IDS=${@:-$(ls seeded | grep -v SWEEP)}
OUT=/verif/seeded/SWEEP.json
python3 - <<'PY'
import json,os
p='/verif/seeded/SWEEP.json'
if not os.path.exists(p): json.dump({},open(p,'w'))
PY
for id in $IDS; do
  [ -f seeded/$id/patch.diff ] || continue
  prop=$(echo $id | cut -d- -f1 | tr 'A-Z' 'a-z')
  for c in $prop ${EXTRA[$id]}; do
    [ -f checks/$c.py ] || continue
    git -C /repo apply --check /verif/seeded/$id/patch.diff 2>/dev/null || { echo "$id: PATCH DOES NOT APPLY"; continue 2; }
    s=$(date +%s)
    tools/try_mutant.sh /verif/seeded/$id/patch.diff $c > /tmp/sweep_${id}_$c.log 2>&1
    rc=$(grep -o "^exit=[0-9]*" /tmp/sweep_${id}_$c.log | cut -d= -f2)
    first=$(grep -A1 "^VIOLATION" /tmp/sweep_${id}_$c.log | sed -n 2p | cut -c1-200)
    echo "$id $c exit=$rc $(( $(date +%s) - s ))s $first"
    python3 - "$id" "$c" "$rc" "$first" <<'PY'
import json,sys
p='/verif/seeded/SWEEP.json'; d=json.load(open(p))
d.setdefault(sys.argv[1],{})[sys.argv[2]]={'exit':int(sys.argv[3] or -1),'first_violation':sys.argv[4]}
json.dump(d,open(p,'w'),indent=1)
PY
    [ "$rc" = "1" ] && break
  done
done
git -C /repo status --short | grep -v _build
