#!/bin/bash
# confirm_mutant.sh <ID> [suffix] - independently confirm a seeded change produced by a sub-agent in /tmp/mut/<ID>:
# builds with the change, runs the whole existing test suite, runs the demonstration with and without the change,
# stores patch/demo/meta under /verif/seeded/<ID><suffix>/ and removes the scratch worktree.
ID=$1; SFX=${2:-}; W=/tmp/mut/$ID; O=/tmp/mut/$ID.out; D=/verif/seeded/$ID$SFX
LOG=/tmp/mut/$ID.confirm.log; : > $LOG
cd $W || exit 2
git diff --quiet && { echo "no change in worktree" | tee -a $LOG; exit 2; }
git diff > $O/patch.check.diff
cmake --build _build -j6 >>$LOG 2>&1 || { echo "BUILD FAILED" | tee -a $LOG; exit 1; }
ctest --test-dir _build -j6 --timeout 900 > /tmp/mut/$ID.ctest.log 2>&1; T=$?
SUMMARY=$(grep "tests passed" /tmp/mut/$ID.ctest.log)
echo "ctest rc=$T: $SUMMARY" | tee -a $LOG
bash $O/demo.sh $W > /tmp/mut/$ID.demo_with.log 2>&1; RW=$?
git apply -R $O/patch.check.diff; cmake --build _build -j6 >>$LOG 2>&1
bash $O/demo.sh $W > /tmp/mut/$ID.demo_without.log 2>&1; RWO=$?
git apply $O/patch.check.diff
echo "demo with change rc=$RW, without rc=$RWO" | tee -a $LOG
if [ $T -eq 0 ] && [ $RW -ne 0 ] && [ $RWO -eq 0 ]; then
  mkdir -p $D; cp $O/patch.diff $D/patch.diff; cp $O/demo.* $D/ 2>/dev/null
  python3 - "$O/meta.json" "$D/meta.json" "$SUMMARY" "$RW" "$RWO" <<'PY'
import json,sys
m=json.load(open(sys.argv[1]))
m['confirmed_by_verifier']={'ctest_with_change':sys.argv[3],'demo_exit_with_change':int(sys.argv[4]),'demo_exit_without_change':int(sys.argv[5]),
  'ran':'tools/confirm_mutant.sh: cmake --build + full ctest in the scratch worktree with the change; demo.sh with the change and after git stash + rebuild'}
json.dump(m,open(sys.argv[2],'w'),indent=1)
PY
  echo "CONFIRMED -> $D" | tee -a $LOG
else
  echo "NOT CONFIRMED" | tee -a $LOG
fi
cd / && git -C /repo worktree remove --force $W && echo "worktree removed" >> $LOG
