"""api_common.py - shared by C14/C16/C15: blob generators (the database answers a blob column with the encoding of an
arbitrary valid struct), op tables and the end-of-call oracles evaluated on the sqlite3 model's statement log."""
import re, z3
from lsx.ir import P
from lsx import engine as E, models_sqlite, models_zlib

OBSERVERS_V2 = {0: 'track.snapshot', 1: 'track.album', 2: 'track.artist', 3: 'track.average_loudness', 4: 'track.beatgrid', 5: 'track.bitrate', 6: 'track.bpm', 7: 'track.comment',
                8: 'track.composer', 9: 'track.containing_crates', 10: 'track.duration', 11: 'track.file_extension', 12: 'track.filename', 13: 'track.genre', 14: 'track.hot_cue_at',
                15: 'track.hot_cues', 16: 'track.is_valid', 17: 'track.key', 18: 'track.last_played_at', 19: 'track.loop_at', 20: 'track.loops', 21: 'track.main_cue', 22: 'track.publisher',
                23: 'track.rating', 24: 'track.relative_path', 25: 'track.sample_count', 26: 'track.sample_rate', 27: 'track.title', 28: 'track.track_number', 29: 'track.waveform',
                30: 'track.year', 31: 'track.id', 40: 'crate.children', 41: 'crate.descendants', 42: 'crate.is_valid', 43: 'crate.name', 44: 'crate.parent', 45: 'crate.sub_crate_by_name',
                46: 'crate.tracks', 47: 'crate.id', 50: 'database.crates', 51: 'database.crate_by_id', 52: 'database.crates_by_name', 53: 'database.root_crates',
                54: 'database.root_crate_by_name', 55: 'database.tracks', 56: 'database.track_by_id', 57: 'database.tracks_by_relative_path', 58: 'database.uuid', 59: 'database.version_name',
                60: 'database.directory'}
MUTATORS_V2 = {100: 'track.set_album', 101: 'track.set_artist', 102: 'track.set_average_loudness', 103: 'track.set_beatgrid', 104: 'track.set_bitrate', 105: 'track.set_bpm',
               106: 'track.set_comment', 107: 'track.set_composer', 108: 'track.set_duration', 109: 'track.set_genre', 110: 'track.set_hot_cue_at', 111: 'track.set_hot_cues',
               112: 'track.set_key', 113: 'track.set_last_played_at', 114: 'track.set_loop_at', 115: 'track.set_loops', 116: 'track.set_main_cue', 117: 'track.set_publisher',
               118: 'track.set_rating', 119: 'track.set_relative_path', 120: 'track.set_sample_count', 121: 'track.set_sample_rate', 122: 'track.set_title', 123: 'track.set_track_number',
               124: 'track.set_waveform', 125: 'track.set_year', 126: 'track.update', 140: 'crate.add_track(track)', 141: 'crate.add_track(id)', 142: 'crate.clear_tracks',
               143: 'crate.create_sub_crate', 144: 'crate.create_sub_crate_after', 145: 'crate.remove_track', 146: 'crate.set_name', 147: 'crate.set_parent(crate)',
               148: 'crate.set_parent(none)', 150: 'database.create_root_crate', 151: 'database.create_root_crate_after', 152: 'database.create_track', 153: 'database.remove_crate',
               154: 'database.remove_track'}

OPNAMES = {(2, k): 'v2 ' + v for k, v in list(OBSERVERS_V2.items()) + list(MUTATORS_V2.items())}
def be(n, w): return [(n >> (8 * (w - 1 - i))) & 0xff for i in range(w)]
def le(n, w): return [(n >> (8 * i)) & 0xff for i in range(w)]
CONCRETE_BLOBS = [False]
def sym(st, name, n):
    if CONCRETE_BLOBS[0] == 'zero_trackdata' and name == 'trackData': return [0] * n      # a track with no sample rate / count / loudness / key
    if CONCRETE_BLOBS[0]: return [0x40 if i % 8 == 0 else 0 for i in range(n)]     # fixed content: 2.0-ish doubles, never the -1 sentinel
    return [st.new_input('%s[%d]' % (name, i), 8, 'env') for i in range(n)]
def framed(payload): return be(len(payload), 4) + payload

def v2_blob(st, colname):
    """encoding of an arbitrary valid 2.x blob struct (8 cue / loop slots, 2-marker grids, 2 waveform points)"""
    c = colname.lower()
    if c == 'trackdata': return framed(sym(st, 'trackData', 44))
    if c == 'beatdata':
        p = sym(st, 'beat.hdr', 17)
        for g in range(2):
            p += be(2, 8)
            for m in range(2): p += sym(st, 'beat.g%d.m%d' % (g, m), 24)
        return framed(p + [0] * 9)
    if c == 'quickcues':
        p = be(8, 8)
        for i in range(8): p += [1] + sym(st, 'cue%d' % i, 1 + 8 + 4)
        return framed(p + sym(st, 'maincue', 17))
    if c == 'loops':
        p = le(8, 8)
        for i in range(8): p += [1] + sym(st, 'loop%d' % i, 1 + 16 + 2 + 4)
        return p
    if c == 'overviewwaveformdata':
        return framed(be(2, 8) + be(2, 8) + sym(st, 'ov', 8 + 6 + 3))
    return None

def select_columns(sql):
    m = re.match(r'^\s*SELECT\s+(.*?)\s+FROM\s', sql, re.I | re.S)
    if not m: return []
    return [c.strip().split('.')[-1].split(' ')[-1] for c in m.group(1).split(',')]

def install_time_stubs(eng):
    # date/time text formatting goes through iostreams + date.h: not the subject here, replaced by arbitrary sane values
    def parse_ft(st, a):
        v = st.new_input('parsed_time_ns', 64, 'env'); st.var_ranges = dict(st.var_ranges); st.var_ranges[v.get_id()] = (0, 1 << 61); st.pc.append(z3.ULE(v, 1 << 61))
        return v
    eng.models['_ZN9djinterop4util8parse_ftERKNSt7__cxx1112basic_stringIcSt11char_traitsIcESaIcEEE'] = parse_ft
    def to_ft(st, a):
        ret = a[0]      # sret std::string
        eng.store(st, ret, 8, P(ret.obj, ret.off + 16)); eng.store(st, P(ret.obj, ret.off + 8), 8, 19)
        for i, ch in enumerate(b'2020-01-01 00:00:00\0'[:16]): eng.store(st, P(ret.obj, ret.off + 16 + i), 1, ch)
        # 19 chars do not fit the 15-byte SSO buffer: use a heap buffer
        buf = st.alloc(32, 'heap', 'ft-string'); o = st.mem[buf.obj]
        for i, ch in enumerate(b'2020-01-01 00:00:00\0'): o.cells[i] = (1, ch)
        eng.store(st, ret, 8, buf); eng.store(st, P(ret.obj, ret.off + 16), 8, 31)
    eng.models['_ZN9djinterop4util5to_ftB5cxx11ERKNSt6chrono10time_pointINS1_3_V212system_clockENS1_8durationIlSt5ratioILl1ELl1000000000EEEEEE'] = to_ft
    def date_format(st, a):
        # date::format(fmt, time_point) -> std::string (sret): iostream formatting, replaced by a fixed well-formed time stamp
        ret = a[0]
        buf = st.alloc(32, 'heap', 'ft-string'); o = st.mem[buf.obj]
        for i, ch in enumerate(b'2020-01-01 00:00:00\0'): o.cells[i] = (1, ch)
        eng.store(st, ret, 8, buf); eng.store(st, P(ret.obj, ret.off + 8), 8, 19); eng.store(st, P(ret.obj, ret.off + 16), 8, 31)
    eng.model_prefixes.append(('_ZN4date6formatIc', date_format))


FT_MARK = b'@vt'
FT_CODES = {}
def install_time_contract(eng):
    """Contract model of util::to_ft / util::parse_ft (date.h through iostreams: text formatting cannot be executed by lsx): the text form is an
    *injective* code of the whole-second part of the time point - 16 characters 'A'..'P' holding the nibbles of the seconds count followed by
    a marker (19 characters like the real form, no NUL byte) - and parse_ft inverts it: parse_ft(to_ft(t)) == floor_seconds(t), which is what
    '%F %T' does for every non-negative int64 nanosecond count (1970..2262).  A text that did not come from to_ft (a schema default, strftime in a trigger) parses to an arbitrary
    time as before."""
    install_time_stubs(eng)
    NS = 1000000000
    def to_ft(st, a):
        ret, tp = a[0], a[-1]         # to_ft(sret, tp&) and, where clang inlined it, date::format(sret, fmt, tp&)
        ns = eng.load(st, tp, 8)
        if ns.__class__ is int:
            ns = E.to_signed(ns, 64)
            if ns < 0: raise E.Inconclusive('time', 'time point before 1970 formatted as text')
            sec = ns // NS
            bs = [0x41 + ((sec >> (4 * i)) & 15) for i in range(16)]
        else:
            if not eng.must_be(st, ns >= 0): raise E.Inconclusive('time', 'time point possibly before 1970 formatted as text')       # (int64 nanoseconds end in 2262)
            sec = None
            # ns == X * 10^9 with X small (the usual seconds -> nanoseconds conversion): the quotient is X, no division for the solver
            if z3.is_app(ns) and ns.decl().kind() == z3.Z3_OP_BMUL and ns.num_args() == 2:
                c, x = ns.arg(0), ns.arg(1)
                if not z3.is_bv_value(c): c, x = x, c
                if z3.is_bv_value(c) and c.as_long() == NS and eng.must_be(st, z3.ULE(x, 1 << 33)): sec = x
            if sec is None: sec = E.simp(z3.UDiv(ns, z3.BitVecVal(NS, 64)))
            bs = [E.simp(z3.ZeroExt(4, z3.Extract(4 * i + 3, 4 * i, sec)) + z3.BitVecVal(0x41, 8)) for i in range(16)]
        FT_CODES[tuple(b if b.__class__ is int else ('t', b.get_id()) for b in bs)] = sec
        buf = st.alloc(32, 'heap', 'ft-string'); o = st.mem[buf.obj]
        for i, b in enumerate(bs): o.cells[i] = (1, b)
        for i, ch in enumerate(FT_MARK + b'\0'): o.cells[16 + i] = (1, ch)
        eng.store(st, ret, 8, buf); eng.store(st, P(ret.obj, ret.off + 8), 8, 19); eng.store(st, P(ret.obj, ret.off + 16), 8, 31)
    eng.models['_ZN9djinterop4util5to_ftB5cxx11ERKNSt6chrono10time_pointINS1_3_V212system_clockENS1_8durationIlSt5ratioILl1ELl1000000000EEEEEE'] = to_ft
    eng.model_prefixes.insert(0, ('_ZN4date6formatIc', to_ft))
    old_parse = eng.models['_ZN9djinterop4util8parse_ftERKNSt7__cxx1112basic_stringIcSt11char_traitsIcESaIcEEE']
    def parse_ft(st, a):
        s_ = a[0]
        n = eng.load(st, P(s_.obj, s_.off + 8), 8)
        if n.__class__ is int and n == 19:
            data = eng.load(st, s_, 8)
            bs = eng.read_bytes(st, data, 19)
            if all(b.__class__ is int for b in bs[16:]) and bytes(bs[16:]) == FT_MARK:
                if all(b.__class__ is int for b in bs[:16]):
                    sec = 0
                    for i, b in enumerate(bs[:16]): sec |= ((b - 0x41) & 15) << (4 * i)
                    return (sec * NS) & ((1 << 64) - 1)
                sec = FT_CODES.get(tuple(b if b.__class__ is int else ('t', b.get_id()) for b in bs[:16]))       # the term to_ft coded (no bit puzzle for the solver)
                if sec is None: sec = E.simp(z3.Concat(*[z3.Extract(3, 0, E.bv(b, 8) - z3.BitVecVal(0x41, 8)) for b in reversed(bs[:16])]))
                return E.simp(sec * z3.BitVecVal(NS, 64))
        return old_parse(st, a)
    eng.models['_ZN9djinterop4util8parse_ftERKNSt7__cxx1112basic_stringIcSt11char_traitsIcESaIcEEE'] = parse_ft


def install_abstract_v2(eng, fail='none', rows_mode='one', null='never', row_exists=True, sane_ints=True, concrete_blobs=True, fail_reads=False, sym_text=0):
    CONCRETE_BLOBS[0] = concrete_blobs
    def blob(st, s_, col):
        cols = select_columns(s_.sql)
        name = cols[col] if col < len(cols) else ''
        return v2_blob(st, name)
    def text(st, s_, col):
        # stored text of arbitrary content (sym_text non-NUL bytes): two text columns of one row need not agree with each other
        out = []
        for i in range(sym_text):
            b = st.new_input('text%d_%d' % (col, i), 8, 'env'); st.pc.append(b != 0); out.append(b)
        return out
    def coltype(st, s_, col):
        cols = select_columns(s_.sql)
        name = (cols[col] if col < len(cols) else '').lower()
        if name in ('trackdata', 'beatdata', 'quickcues', 'loops', 'overviewwaveformdata'): return 'blob'
        if name in ('path', 'filename', 'title', 'artist', 'album', 'genre', 'comment', 'label', 'composer', 'remixer', 'albumart', 'filetype', 'streamingsource', 'uri',
                    'origindatabaseuuid', 'uuid', 'databaseuuid', 'lastedittime') and 'FROM Track' not in s_.sql.replace('lastEditTime', ''): return 'text'
        if name in ('path', 'filename', 'title', 'artist', 'album', 'genre', 'comment', 'label', 'composer', 'remixer', 'albumart', 'filetype', 'streamingsource', 'uri',
                    'origindatabaseuuid', 'uuid', 'databaseuuid'): return 'text'
        if name == 'bpmanalyzed': return 'real'
        return 'int'
    def rows(st, s_):
        if 'COUNT(' in s_.sql.upper(): return 1
        if 'FROM Information' in s_.sql: return 1        # a library always has exactly one Information row
        if rows_mode == 'one': return 1
        return None
    def column(st, s_, col, want):
        cols = select_columns(s_.sql)
        name = (cols[col] if col < len(cols) else '').lower()
        if want == 'int' and name in ('timelastplayed', 'datecreated', 'dateadded', 'lastedittime'):
            v = st.new_input(name, 64, 'env'); st.var_ranges = dict(st.var_ranges); st.var_ranges[v.get_id()] = (0, 1 << 32); st.pc.append(z3.ULE(v, 1 << 32))
            return ('int', v)
        if want == 'text' and name == 'lastedittime': return ('text', tuple(b'2020-01-01 00:00:00'))
        if want == 'int' and name in ('nextlistid', 'nextentityid'):
            return ('int', 0)       # well-formed chain: with at most one row answered, that row is the tail
        if want == 'int' and sane_ints:
            # numeric answers in a sane range (extreme stored values are the subject of C15, not of C14/C16)
            lo = 1 if name == 'id' or name.endswith('id') else 0      # row ids are positive
            v = st.new_input('col_' + (name or str(col)), 64, 'env'); st.var_ranges = dict(st.var_ranges); st.var_ranges[v.get_id()] = (lo, 1 << 31)
            st.pc.append(z3.And(z3.UGE(v, lo), z3.ULE(v, 1 << 31)))
            return ('int', v)
        return None
    if rows_mode != 'one': max_rows = 1
    else: max_rows = 2
    cfg = {'fail': fail, 'blob': blob, 'coltype': coltype, 'rows': rows, 'max_rows': max_rows, 'null': null, 'column': column, 'row_exists': row_exists, 'fail_reads': fail_reads}
    if sym_text: cfg['text'] = text
    models_sqlite.install(eng, cfg)
    models_zlib.install_identity(eng)
    install_time_stubs(eng)
    def op_done(st, a):
        st.env['op_threw'] = a[0]
        q = st.env.get('sq')
        st.env['op_log_len'] = len(q.log) if q else 0
    eng.models['verif_op_done'] = op_done


# ---- oracles (run when a path ends; raise E.Bug to report)
def oracle_c16(eng, out, st):
    """no observing operation issues a write / DDL / transaction statement"""
    q = st.env.get('sq')
    if q is None: return None
    for e in q.log:
        if e[0] == 'prepare' and models_sqlite.classify(e[1]) in ('write', 'ddl', 'txn', 'other'):
            eng.ensure_model(st)
            return ('bug', E.Bug('assert', 'C16: an observing operation prepared a non-read statement: ' + e[1][:100], st.model))
    return None
def oracle_c16_load(eng, out, st):
    """loading / database_exists() / verify(): nothing but reads, ATTACH / DETACH of the library's own files and (for completeness) nothing at close"""
    q = st.env.get('sq')
    if q is None: return None
    for e in q.log:
        if e[0] != 'prepare': continue
        k = models_sqlite.classify(e[1]); w = e[1].strip().upper().split()[0] if e[1].strip() else ''
        if k in ('write', 'txn', 'other') or (k == 'ddl' and w not in ('ATTACH', 'DETACH')):
            eng.ensure_model(st)
            return ('bug', E.Bug('assert', 'C16: loading / observing the library as a whole executed a non-read statement: ' + e[1][:100], st.model))
    st.log.append(('reach', 'statements-checked'))
    return None
def oracle_c14(eng, out, st):
    """after an injected statement failure: the call threw, no transaction is left open, nothing was committed"""
    q = st.env.get('sq')
    if q is None or q.failed is None or 'op_threw' not in st.env: return None
    msg = None
    if not st.env['op_threw']: msg = 'the failing statement was swallowed: the call returned normally'
    elif q.txn: msg = 'a transaction is left open after the failed call'
    elif q.w_auto: msg = '%d write statement(s) took effect although the call failed (partial update)' % q.w_auto
    if msg is None:
        st.log.append(('reach', 'failure-checked'))
        if q.failed[0] == 'read': st.log.append(('reach', 'read-failure-checked'))
        return None
    steps = ' | '.join('%s%s' % (e[2][:40], ' => ' + str(e[4]) if len(e) > 4 else '') for e in q.log if e[0] == 'step' and e[1] != 'read')
    eng.ensure_model(st)
    opname = OPNAMES.get((eng.params.get('gen', 2), eng.params.get('op')), str(eng.params.get('op')))
    return ('bug', E.Bug('assert', 'C14[%s]: %s; failed statement: %s; statements: %s' % (opname, msg, q.failed[1][:60], steps[:400]), st.model))


# ---------------------------------------------------------------------------------------------------------------
# schema 1.x
import struct as _struct
def _dle(x): return list(_struct.pack('<d', x))
def _dbe(x): return list(_struct.pack('>d', x))

def v1_blob(st, colname):
    """encoding of a valid 1.x performance-data struct (8 cue / loop slots, two 2-marker grids, 2 waveform entries)"""
    c = colname.lower()
    if c == 'trackdata': return framed(sym(st, 'trackData', 28))
    if c == 'highresolutionwaveformdata': return framed(be(2, 8) + be(2, 8) + sym(st, 'hr', 8 + 12 + 6))
    if c == 'overviewwaveformdata': return framed(be(2, 8) + be(2, 8) + sym(st, 'ov', 8 + 6 + 3))
    if c == 'beatdata':
        p = _dbe(44100.0) + _dbe(1000000.0) + [1]
        for g in range(2):
            p += be(2, 8) + _dle(0.0) + le(0, 8) + le(4, 4) + le(0, 4) + _dle(88200.0) + le(4, 8) + le(0, 4) + le(0, 4)     # sorted, consistent grid
        return framed(p + [0] * 9)
    if c == 'quickcues':
        p = be(8, 8)
        for i in range(8): p += [1] + sym(st, 'cue%d' % i, 1 + 8 + 4)
        return framed(p + _dbe(10.0) + [0] + _dbe(10.0))
    if c == 'loops':
        p = le(8, 8)
        for i in range(8): p += [1] + sym(st, 'loop%d' % i, 1 + 16) + [1, 1] + sym(st, 'loopcol%d' % i, 4)
        return p
    return None

V1_TEXT = {'path', 'filename', 'text', 'uuidofexternaldatabase', 'uri', 'title', 'uuid', 'name', 'cratepath'}
V1_BLOBS = {'trackdata', 'highresolutionwaveformdata', 'overviewwaveformdata', 'beatdata', 'quickcues', 'loops'}
OPNAMES.update({(1, k): 'v1 ' + v for k, v in list(OBSERVERS_V2.items()) + list(MUTATORS_V2.items())})

def install_abstract_v1(eng, fail='none', rows_mode='one', null='never', row_exists=True, sane_ints=True, concrete_blobs=True, fail_reads=False, sym_text=0):
    CONCRETE_BLOBS[0] = concrete_blobs
    def name_of(s_, col):
        cols = select_columns(s_.sql)
        return (cols[col] if col < len(cols) else '').lower()
    def blob(st, s_, col): return v1_blob(st, name_of(s_, col))
    def coltype(st, s_, col):
        n = name_of(s_, col)
        if n in V1_BLOBS: return 'blob'
        if n in V1_TEXT: return 'text'
        if n == 'bpmanalyzed': return 'real'
        return 'int'
    def rows(st, s_):
        if 'COUNT(' in s_.sql.upper(): return 1
        if 'FROM Information' in s_.sql or 'FROM music.Information' in s_.sql: return 1
        # recursive walks (crate paths, descendants) re-issue the same statement once per level: the model's forest is finite -
        # after three levels the statement answers no row
        seen = st.env.setdefault('sql_seen', {}); seen[s_.sql] = seen.get(s_.sql, 0) + 1
        if seen[s_.sql] > 3: return 0
        if rows_mode == 'one': return 1
        return None
    def column(st, s_, col, want):
        n = name_of(s_, col)
        if want == 'int' and sane_ints:
            lo = 1 if n == 'id' or n.endswith('id') else 0
            v = st.new_input('col_' + (n or str(col)), 64, 'env'); st.var_ranges = dict(st.var_ranges); st.var_ranges[v.get_id()] = (lo, 1 << 31)
            st.pc.append(z3.And(z3.UGE(v, lo), z3.ULE(v, 1 << 31)))
            return ('int', v)
        return None
    cfg = {'fail': fail, 'blob': blob, 'coltype': coltype, 'rows': rows, 'max_rows': 2 if rows_mode == 'one' else 1, 'null': null, 'column': column, 'row_exists': row_exists, 'fail_reads': fail_reads}
    def text(st, s_, col):
        out = []
        for i in range(sym_text):
            b = st.new_input('text%d_%d' % (col, i), 8, 'env'); st.pc.append(b != 0); out.append(b)
        return out
    if sym_text: cfg['text'] = text
    models_sqlite.install(eng, cfg)
    models_zlib.install_identity(eng)
    def op_done(st, a):
        st.env['op_threw'] = a[0]
    eng.models['verif_op_done'] = op_done
