#!/usr/bin/env python3-vt
"""C02 - written blobs agree with an independent implementation of the Engine layout (reference encoder written in
harness/h_codec_v*.cpp from the documented format; the real encoder and the real decoder are each compared with it,
never with each other), and the real zlib wrappers frame the stream as BE32(length) ++ deflate output."""
import sys, os
sys.path.insert(0, os.path.dirname(os.path.abspath(__file__)))
import common, codec_jobs
from common import Check, run_jobs, TIER
from lsx import driver

def main():
    ck = Check('C02')
    ll2 = driver.compile_ir('h_codec_v2.cpp'); ll1 = driver.compile_ir('h_codec_v1.cpp')
    driver.load_module(ll2); driver.load_module(ll1)
    ck.native_spec = codec_jobs.NATIVE
    eo = {'max_steps': 4000000, 'max_paths': 20000}
    jobs = []
    for kind, p in codec_jobs.v2_grid(long_labels=False):
        for d in ('refenc', 'refdec'): jobs.append(dict(harness='h_codec_v2.cpp', ll=ll2, entry='h_%s_%s' % (d, kind), params=p, models=['zlib_identity'], known=ck.known, eng_opts=eo))
    for kind, p in codec_jobs.v1_grid(long_labels=False, near=1):
        for d in ('refenc1', 'refdec1'): jobs.append(dict(harness='h_codec_v1.cpp', ll=ll1, entry='h_%s_%s' % (d, kind), params=p, models=['zlib_identity'], known=ck.known, eng_opts=eo))
    rs = run_jobs(jobs)
    ck.add_results(rs)
    reach = ck.reach_summary()
    if not reach.get('decoded') or not reach.get('encoded'): ck.machinery.append('vacuity guard: encode/decode comparison never reached')
    ck.extra['bounds'] = {'values': 'all doubles by bit pattern, all integers over their full width, all label/extra bytes symbolic', 'runs': len(jobs),
                          'outside': 'sizes other than the listed ones; the deflate bit stream itself (libz); that the reference layout matches real Engine players is the reading of the documented format (trusted base)'}
    ck.assumptions = ['identity zlib framing for the codecs; the real zlib_compress/zlib_uncompress wrappers are checked against a contract stub of deflate/inflate in C05 (h_zlib)',
                      'reference layout: field order, widths, endianness as documented in the public blob headers and performance_data_format.cpp comments']
    ck.trusted = ['reference encoder in harness/h_codec_v2.cpp, h_codec_v1.cpp', 'clang-14 lowering', 'lsx executor', 'z3']
    ck.finish()
if __name__ == '__main__': main()
