#!/usr/bin/env python3-vt
"""C10 (glue half) - everything observed before closing is observed after reopening.  harness/h_reopen.h over the relational sqlite3 model:
a history of crate / track operations (concrete prefix + 1-2 operations with symbolic kind and operands: add / remove / clear membership,
remove track / crate, create track / crate / sub-crate, retitle / rate a track, rename a crate), then the whole observation is made through
the handles the history holds, every handle and the database object are released (sqlite3_close: an open transaction is rolled back), the
library is opened again over the committed store and the observation is repeated through fresh handles obtained by id: both must be equal.
What the solver decides: no path of the glue leaves a write uncommitted, keeps observable state only in a handle / implementation object,
or reads something after reopening that differs from what it showed before.  Sampled passing paths and every counterexample are replayed
natively against the library built from /repo's working tree: there the library is created ON DISK, closed and loaded again with
load_database (real files, real loader, real SQLite), and the loaded schema version must be the created one."""
import sys, os
sys.path.insert(0, os.path.dirname(os.path.abspath(__file__)))
import common, crates_common, rel_common, c08, c13
from common import Check, run_jobs, TIER
from lsx import driver
HARNESS = {2: 'h_reopen_v2.cpp', 1: 'h_reopen_v1.cpp'}
RETITLE, RENAME, RATE = 8, 9, 10
def configs(gen):
    Q = TIER == 'quick'
    schemas = ([6, 0] if Q else list(range(7))) if gen == 2 else ([10, 0] if Q else list(range(11)))
    out = []
    for si, sc in enumerate(schemas):
        for sh in (['diverge', 'nested'] if (si == 0 or not Q) else ['diverge']):
            out.append(dict(gen=gen, schema=sc, **c08.pre(sh), nsym=1, kinds=0x7ff))
        if si == 0:
            out.append(dict(gen=gen, schema=sc, **c08.pre('small'), nsym=2, kinds=0x7ff))
            # a rejected operation followed by a successful write, then closing: what a transaction guard that leaves the connection inside a
            # transaction after a failure loses (seeded change C10-1: SAVEPOINT / ROLLBACK TO instead of BEGIN / ROLLBACK).  The prefixes hold a
            # removed track / a removed crate so that one symbolic operation can be the rejected one and the next the write
            out.append(dict(gen=gen, schema=sc, **c08.pre('after-removals'), nsym=2, kinds=0x7ff))
            out.append(dict(gen=gen, schema=sc, **c08.pre('crate-removed'), nsym=2, kinds=0x7ff))
            # a crate removed together with its sub-crate, then new crates (ids may be handed out again): what a per-connection cache keyed by id gets wrong (seeded change C10-2)
            out.append(dict(gen=gen, schema=sc, **c08.pre('parent-removed'), nsym=2, kinds=0x7ff))
            if not Q:
                out.append(dict(gen=gen, schema=sc, **c08.pre('two-roots'), nsym=2, kinds=0x7ff))
    for c in out: c['peek'] = 1 if (c['nsym'] == 1 or c['shape'] == 'parent-removed') else 0      # (peeking doubles the statements of a history: the long two-operation runs stay without)
    return out
def main():
    ck = Check('C10'); ck.assert_filter = r'C10'
    jobs = []; eo = {'max_steps': 80000000, 'max_paths': 8000}
    for gen in (2, 1):
        ll = driver.compile_ir(HARNESS[gen]); driver.load_module(ll)
        ck.native_spec[HARNESS[gen]] = {'public': True}
        for p in configs(gen):
            jobs.append(dict(harness=HARNESS[gen], ll=ll, entry='h_reopen', params=dict(p), models=['zlib_identity', 'rel_g%d_s%d' % (gen, p['schema'])], known=ck.known,
                             must_reach=['prefix-built', 'history-done', 'checked'], eng_opts=eo, replay='native', time_limit=1500, allow_throw='none', nsamples=4, max_bugs=12,
                             assert_filter=r'C10', label=p['shape']))
    if os.environ.get('VERIF_GEN'): jobs = [j for j in jobs if str(j['params']['gen']) == os.environ['VERIF_GEN']]
    jobs.sort(key=lambda j: -j['params']['nsym'])
    # create-or-load half: the real create_or_load_database / load_database over C13's abstract sqlite3 + stat() model, create_database recorded
    lld = driver.compile_ir('h_detect.cpp'); driver.load_module(lld)
    if not os.environ.get('VERIF_GEN'):
        jobs.append(dict(harness='h_detect.cpp', ll=lld, entry='h_create_or_load', params={'nsym': 0}, models=['c13'], known=ck.known, must_reach=['col-called', 'col-none', 'col-exists', 'col-loaded'],
                         eng_opts={'max_steps': 3000000, 'max_paths': 40000}, replay='none', max_bugs=12, assert_filter=r'C10', label='create-or-load'))
    res = run_jobs(jobs); ck.add_results(res)
    crates_common.native_validate(ck, [r for r in res if r.job['harness'] != 'h_detect.cpp'])
    ck.extra['create_or_load'] = ('real create_or_load_database + load_database + detect_schema over the abstract sqlite3 / stat() model of C13: every combination of directory / m.db / Database2/m.db existence, '
        'every int32 version triple, 0..2 Information rows, requested schema and the initial values of both output parameters symbolic; create_database replaced by a recorder. Asserted: '
        'created (flag set, creator called once, with the requested version, no file opened) exactly when no library exists; an existing library - also an unreadable or unsupported one - is never created over; '
        'a loaded library reports created == false and its stored version; the known C13 finding (3.0.0 accepted) is assumed away')
    ck.extra['bounds'] = {'histories': 'prefix shapes of the membership harness (up to 3 crates and 3 tracks), then 1 symbolic operation of any of 11 kinds on any operand (also removed ones); '
                                       '2 symbolic operations from the small prefix; closing after the last operation',
                          'schemas': 'quick: newest and oldest version of each generation; thorough: every version',
                          'observation': 'per live crate (through its old handle / crate_by_id): id, name, parent, children, tracks; per live track: id, relative path, title, rating; database: crates(), root_crates(), tracks(), uuid, version name',
                          'outside': "SQLite's pager and journal (durability of a COMMIT), the files' location and the two attached files of 1.x, the loader itself (exercised only by the native replays of sampled paths, not decided by the solver), "
                                     'what create_database writes (C11 / C17), create-or-load on a directory holding both layouts (not stated), closing at an inner prefix of the history, fields beyond title / rating'}
    ck.assumptions = ['lsx/models_rel.py stands for SQLite; one store per run stands for the library files; sqlite3_close rolls an open transaction back and keeps committed rows',
                      'the second connection is opened by constructing the library objects over the store (the symbolic run does not execute load_database; the native replays do)']
    ck.trusted = ['clang-14 lowering', 'lsx executor', 'lsx/models_rel.py', 'z3']
    ck.finish()
if __name__ == '__main__': main()
