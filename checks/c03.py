#!/usr/bin/env python3-vt
"""C03 - every blob codec decodes its own encoding to the original value (or rejects at encode time)."""
import sys, os
sys.path.insert(0, os.path.dirname(os.path.abspath(__file__)))
import common, codec_jobs
from common import Check, run_jobs, TIER
from lsx import driver

def main():
    ck = Check('C03')
    ll2 = driver.compile_ir('h_codec_v2.cpp'); ll1 = driver.compile_ir('h_codec_v1.cpp')
    driver.load_module(ll2); driver.load_module(ll1)
    ck.native_spec = codec_jobs.NATIVE
    eo = {'max_steps': 4000000, 'max_paths': 20000}
    jobs = []
    for kind, p in codec_jobs.v2_grid(): jobs.append(dict(harness='h_codec_v2.cpp', ll=ll2, entry='h_rt_' + kind, params=p, models=['zlib_identity'], known=ck.known, eng_opts=eo))
    for kind, p in codec_jobs.v1_grid(): jobs.append(dict(harness='h_codec_v1.cpp', ll=ll1, entry='h_rt1_' + kind, params=p, models=['zlib_identity'], known=ck.known, eng_opts=eo))
    rs = run_jobs(jobs)
    ck.add_results(rs)
    reach = ck.reach_summary()
    if not reach.get('decoded'): ck.machinery.append('vacuity guard: no run reached a successful decode')
    ck.extra['bounds'] = {'values': 'all doubles by bit pattern, all integers over their full width, all label bytes symbolic',
                          'counts': sorted(set(str(j['params']) for j in jobs))[:60], 'runs': len(jobs),
                          'outside': 'entry counts, label lengths and waveform sizes other than the listed ones (40000-marker grids, 100000-point waveforms); libz'}
    ck.assumptions = ['identity zlib framing (the codecs never look inside the compressed stream)',
                      '1.x domain as documented: non-empty labels, sorted grids of 0 or >= 2 markers, optional numeric fields present => non-zero (0 is the absent sentinel), overview opacity 255',
                      'reserved encodings: a 1.x cue/loop with offset -1 may read back absent (the property allows exactly this)']
    ck.trusted = ['clang-14 lowering', 'lsx executor + runtime models', 'z3']
    ck.finish()
if __name__ == '__main__': main()
