#!/usr/bin/env python3-vt
"""C19 - recommended waveform extents cover the track exactly.
lsx executes the real functions symbolically; each obligation (verif_assert in harness/h_wave.cpp) is decided by
z3 over the whole stated domain: first in the native BV/FP theory, and - where bit-blasting the 64-bit division
by a symbolic divisor does not finish - in an integer encoding that keeps mod 2^64 explicitly (lsx/bv2int.py),
cross-checked by cvc5."""
import sys, os, time, subprocess, tempfile
sys.path.insert(0, os.path.dirname(os.path.abspath(__file__)))
import common
from common import Check, run_jobs, TIER
from lsx import driver, engine as E, bv2int
import z3

ROUTES = []
def install_assert_solver(eng):
    def solver(st, bad, msg):
        if not E.is_sym(bad):
            if bad: eng.ensure_model(st); raise E.Bug('assert', msg, st.model)
            return
        t0 = time.time()
        # 1. native BV/FP, short timeout
        save = eng.timeout_ms; eng.timeout_ms = 10000; eng.fresh_only = True
        try:
            try: m = eng.check(st, bad)
            finally: eng.timeout_ms = save
            st.log.append(('route', msg, 'native-bvfp', 'sat' if m is not None else 'unsat', round(time.time() - t0, 2)))
            if m is not None: raise E.Bug('assert', msg, m, bad)
            return
        except E.Inconclusive:
            pass
        # 2. integer encoding with explicit mod 2^w (FP ops as uninterpreted functions of bit patterns)
        # path-condition conjuncts that only compare a double with a constant carry no information in this encoding (FP operations are
        # uninterpreted there) and slow it down; dropping assumptions is sound for an unsat verdict, and a sat answer of this route is
        # re-checked below against the full condition before it is reported
        def pure_fp_cmp(c):
            k = c.decl().kind()
            if k == z3.Z3_OP_NOT: return pure_fp_cmp(c.arg(0))
            if k in (z3.Z3_OP_AND, z3.Z3_OP_OR): return all(pure_fp_cmp(x) for x in c.children())
            return k in (z3.Z3_OP_FPA_LT, z3.Z3_OP_FPA_GT, z3.Z3_OP_FPA_LE, z3.Z3_OP_FPA_GE, z3.Z3_OP_FPA_EQ) and any(z3.is_fp_value(x) for x in c.children())
        pc_int = [c for c in st.pc if not pure_fp_cmp(c)]
        dump = []
        r, info = bv2int.solve_int(pc_int, bad, timeout_ms=120000, dump=dump)
        if r == 'sat' and len(pc_int) != len(st.pc):
            r, info = bv2int.solve_int(st.pc, bad, timeout_ms=120000, dump=dump)
        if r == 'unsat':
            cv = cvc5_check(dump[0])
            st.log.append(('route', msg, 'int-encoding', 'unsat', round(time.time() - t0, 2), 'cvc5:' + cv))
            if cv == 'sat': raise E.Inconclusive('solver-disagreement', 'z3 unsat but cvc5 sat on the integer encoding of: ' + msg)
            return
        if r == 'sat':
            # FP operations are uninterpreted in this encoding, so its model is only a CANDIDATE: evaluate the real (bit-precise) path
            # condition and assertion under the candidate's input values; only a candidate that really violates the assertion is reported
            s2 = z3.Solver()
            for bvvar, val in info.items(): s2.add(bvvar == val)
            s2.check(); cand = s2.model()
            sub = [(bvvar, z3.BitVecVal(val, bvvar.size())) for bvvar, val in info.items()]
            real = z3.simplify(z3.substitute(z3.And(*(list(st.pc) + [bad])), *sub)) if sub else None
            if real is not None and z3.is_true(real):
                st.log.append(('route', msg, 'int-encoding', 'sat (candidate confirmed bit-precisely)', round(time.time() - t0, 2)))
                raise E.Bug('assert', msg + ' (counterexample from the integer encoding, confirmed in the BV/FP theory)', cand, bad)
            # 3. spurious candidate: the obligation goes back to the bit-precise theory with a long time limit
            eng.timeout_ms = 240000 if TIER == 'quick' else 1200000; eng.fresh_only = True
            try:
                try: m = eng.check(st, bad)
                finally: eng.timeout_ms = save
            except E.Inconclusive:
                raise E.Inconclusive('unknown', 'obligation undecided: the integer encoding only yields spurious candidates (uninterpreted FP) and the bit-precise theory ran out of time: ' + msg)
            st.log.append(('route', msg, 'native-bvfp-long', 'sat' if m is not None else 'unsat', round(time.time() - t0, 2)))
            if m is not None: raise E.Bug('assert', msg, m, bad)
            return
        raise E.Inconclusive('unknown', 'obligation undecided (%s: %s): %s' % (r, info, msg))
    eng.assert_solver = solver
common.register_models('c19_assert_solver', install_assert_solver)

def cvc5_check(smt2):
    try:
        with tempfile.NamedTemporaryFile('w', suffix='.smt2', delete=False, dir=driver.BUILD) as f:
            f.write('(set-logic ALL)\n' + smt2); fn = f.name
        r = subprocess.run(['cvc5', '--tlimit=60000', fn], capture_output=True, text=True, timeout=90)
        os.unlink(fn)
        out = r.stdout.strip().splitlines()
        if '(error' in r.stdout or '(error' in r.stderr: return 'error'
        return out[0] if out else 'none'
    except Exception as e:
        return 'failed'

def on_end(eng, out, st):
    return None
HOOKS = {}

def main():
    ck = Check('C19', level='other')
    ll = driver.compile_ir('h_wave.cpp'); driver.load_module(ll)
    ck.native_spec = {'h_wave.cpp': {'extra_src': [], 'libs': ('-lsqlite3', '-lz')}}
    jobs = [dict(harness='h_wave.cpp', ll=ll, entry=e, params={}, models=['c19_assert_solver'], known=ck.known, must_reach=['computed'],
                 eng_opts={'timeout_ms': 120000})
            for e in ('h_floor', 'h_highres', 'h_overview', 'h_monotone', 'h_public')]
    rs = run_jobs(jobs)
    ck.add_results(rs)
    routes = [dict(harness=r.entry, obligation=x[0][:80], route=x[1], verdict=x[2], seconds=x[3], second_opinion=(x[4] if len(x) > 4 else None)) for r in rs for x in r.routes]
    ck.extra['obligation_routes'] = routes
    obligations = sum(r.asserts for r in rs)
    ck.extra['bounds'] = {'sample_count': '[0, 2^62] (64-bit symbolic)', 'sample_rate': 'every double in [0, 2^31] (all bit patterns; NaN/inf/negative excluded as outside the statement)',
                          'unrolling': 'none needed (loop-free code)'}
    ck.assumptions = ['h_highres/h_overview/h_monotone use floor(rate) = (int64_t)rate and 0 <= floor(rate) <= 2^31, which h_floor proves for every rate in the domain in the FP theory',
                      'in the integer encoding FP operations are uninterpreted functions of their operands (sound for unsat); int->double->int of < 2^53 is the identity']
    ck.trusted = ['clang-14 lowering', 'lsx executor', 'lsx/bv2int.py translation', 'z3 (BV/FP and NIA)', 'cvc5 1.0.3 (second opinion on every integer-encoded unsat)']
    disch = obligations if not ck.violations and not ck.machinery else max(0, obligations - len(ck.violations) - len(ck.machinery))
    ck.finish(coverage_extra={'explanation': 'SMT validity over the statement\'s whole finite domain: every verif_assert of harness/h_wave.cpp on every path of the real '
                              'functions is an obligation "path condition /\\ not(assert)" shown unsatisfiable by z3 (native BV/FP where it finishes, otherwise the integer '
                              'encoding with explicit mod 2^64, re-checked by cvc5). Not an unbounded proof-assistant proof: a solver verdict over a 2^62 x 2^63 domain.',
                              'obligations': obligations, 'discharged': disch,
                              'checker_cmd': 'python3-vt checks/c19.py  (z3 %s via python; cvc5 --tlimit=60000 on the dumped integer encodings)' % z3.get_version_string()})
if __name__ == '__main__': main()
