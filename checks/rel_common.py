"""rel_common.py - DDL extraction from /repo's schema creators and differential validation of lsx/models_rel.py against the real SQLite."""
import re, os, sys, random, sqlite3
sys.path.insert(0, os.path.dirname(os.path.dirname(os.path.abspath(__file__))))
from lsx import models_rel, models_sqlite, driver

SCHEMA_FILES_V2 = {0: 'schema_2_18_0.cpp', 1: 'schema_2_20_1.cpp', 2: 'schema_2_20_2.cpp', 3: 'schema_2_20_3.cpp', 4: 'schema_2_21_0.cpp', 5: 'schema_2_21_1.cpp', 6: 'schema_2_21_2.cpp'}
SCHEMA_FILES_V1 = {0: 'schema_1_6_0.cpp', 1: 'schema_1_7_1.cpp', 2: 'schema_1_9_1.cpp', 3: 'schema_1_11_1.cpp', 4: 'schema_1_13_0.cpp', 5: 'schema_1_13_1.cpp', 6: 'schema_1_13_2.cpp',
                   7: 'schema_1_15_0.cpp', 8: 'schema_1_17_0.cpp', 9: 'schema_1_18_0_desktop.cpp', 10: 'schema_1_18_0_os.cpp'}
LIT = re.compile(r'"((?:[^"\\]|\\.)*)"')
def extract_ddl(path):
    """every `db << "..." "..." ;` statement (string literals only, i.e. no bound parameters) of the file, in order"""
    src = open(path).read()
    out = []
    for m in re.finditer(r'db\s*<<\s*((?:"(?:[^"\\]|\\.)*"\s*)+);', src):
        s = ''.join(x.encode().decode('unicode_escape') for x in LIT.findall(m.group(1)))
        out.append(s)
    return out
def ddl_for(gen, schema_idx):
    f = (SCHEMA_FILES_V2 if gen == 2 else SCHEMA_FILES_V1)[schema_idx]
    return [s for s in extract_ddl(os.path.join(driver.REPO, 'src/djinterop/engine/schema', f)) if s.lstrip().upper().startswith('CREATE')]

def seed_for(gen, schema_idx):
    """the literal (parameter-free) INSERT statements of the creator: rows every created library starts with"""
    f = (SCHEMA_FILES_V2 if gen == 2 else SCHEMA_FILES_V1)[schema_idx]
    return [s for s in extract_ddl(os.path.join(driver.REPO, 'src/djinterop/engine/schema', f)) if s.lstrip().upper().startswith('INSERT') and '?' not in s]

# ---- running the model outside the executor (concrete values only)
class _FakeEng:
    def __init__(s): s.models = {}
    def decide(s, st, c): raise RuntimeError('symbolic decision in concrete validation')
    def concretize(s, st, v, what): return v
    def _m(s, st): return ''
class _Q:
    def __init__(s): s.rel = None; s.changes = None; s.rowid = None; s.log = []; s.tables = {}
class _S:
    def __init__(s, sql, binds): s.sql = sql; s.kind = models_sqlite.classify(sql); s.binds = binds; s.rows = None
def to_val(x):
    if x is None: return ('null',)
    if isinstance(x, bool): return ('int', int(x))
    if isinstance(x, int): return ('int', x & ((1 << 64) - 1))
    if isinstance(x, str): return ('text', tuple(x.encode()))
    if isinstance(x, bytes): return ('blob', tuple(x))
    raise TypeError(x)
def from_val(v):
    if v[0] == 'null': return None
    if v[0] == 'int':
        x = v[1] & ((1 << 64) - 1); return x - (1 << 64) if x >> 63 else x
    if v[0] == 'text': return bytes(v[1]).decode()
    return bytes(v[1])
class ModelDB:
    def __init__(s, ddl):
        s.eng = _FakeEng(); cfg = {'ddl': ddl}
        models_rel.install_rel(s.eng, cfg)
        s.exe = s.eng.sq_cfg['execute']; s.q = _Q(); s.schema = s.eng.rel_schema
    def run(s, sql, params=()):
        st = _S(sql, {i + 1: to_val(p) for i, p in enumerate(params)})
        rc = s.exe(None, s.q, st)
        if st.kind == 'read': return [tuple(from_val(r[i]) for i in range(len(r))) for r in (st.rows or [])]
        return rc
    def dump(s, table):
        t = s.q.rel.rows[table.lower()]; cols = s.schema.tables[table.lower()]['cols']
        return [tuple(from_val(t[k].get(c, ('null',))) for c in cols) for k in sorted(t)]

def real_db(ddl):
    c = sqlite3.connect(':memory:', isolation_level=None)
    for s in ddl: c.execute(s)
    c.set_progress_handler(lambda: 1, 2000000)      # a recursive view over a cyclic parent chain never terminates in SQLite: interrupt
    return c

PLAYLIST_STMTS = [
    ("INSERT INTO Playlist (title, parentListId, isPersisted, nextListId, lastEditTime, isExplicitlyExported) VALUES (?, ?, ?, ?, ?, ?)", 'ins'),
    ("DELETE FROM Playlist WHERE id = ?", 'id'),
    ("UPDATE Playlist SET nextListId = -(1 + nextListId) WHERE id = ?", 'id'),
    ("UPDATE Playlist SET nextListId = ? WHERE nextListId = ? AND parentListId = ?", 'nnp'),
    ("UPDATE Playlist SET title = ?, parentListId = ?, isPersisted = ?, nextListId = ?, lastEditTime = ?, isExplicitlyExported = ? WHERE Id = ?", 'upd'),
    ("UPDATE Playlist SET title = ?, isPersisted = ?, lastEditTime = ?, isExplicitlyExported = ? WHERE Id = ?", 'upd2'),
    ("INSERT INTO PlaylistEntity (listId, trackId, databaseUuid, nextEntityId, membershipReference)VALUES (?, ?, ?, ?, ?)", 'eins'),
    ("UPDATE PlaylistEntity SET nextEntityId = ? WHERE listId = ? AND nextEntityId = 0 AND id <> ?", 'eupd'),
    ("DELETE FROM PlaylistEntity WHERE listId = ?", 'id'),
    ("DELETE FROM PlaylistEntity WHERE listId = ? AND id = ?", 'id2'),
    ("DELETE FROM PlaylistEntity WHERE listId = ? AND trackId = ?", 'id2'),
    ("DELETE FROM PlaylistEntity WHERE trackId = ? AND databaseUuid = (SELECT uuid FROM Information)", 'id'),
    ("INSERT INTO Track (path, filename, originTrackId, originDatabaseUuid) VALUES (?, ?, ?, ?)", 'tins'),
    ("INSERT INTO Track (id, path, filename) VALUES (?, ?, ?)", 'tins_id'),
    ("UPDATE Track SET title = ? WHERE id = ?", 'tupd'),
    ("DELETE FROM Track WHERE id = ?", 'id'),
    ("INSERT INTO ChangeLog (trackId) VALUES (?)", 'id'),
]
READS_TAIL = ["SELECT id, path, filename, title, originTrackId, originDatabaseUuid FROM Track", "SELECT id, trackId FROM ChangeLog", "SELECT name, seq FROM sqlite_sequence WHERE seq > 0"]      # (SQLite creates a zero row as soon as a statement could insert into an AUTOINCREMENT table)
READS = ["SELECT id, title, parentListId, isPersisted, nextListId, lastEditTime, isExplicitlyExported FROM Playlist",
         "SELECT id, listId, trackId, databaseUuid, nextEntityId, membershipReference FROM PlaylistEntity",
         "SELECT id, childListId FROM PlaylistAllChildren", "SELECT id, parentListId FROM PlaylistAllParent"]
def has_cycle(rows):
    par = {r[0]: r[2] for r in rows}
    for k in par:
        seen = set(); c = k
        while c in par:
            if c in seen: return True
            seen.add(c); c = par[c]
    return False
def validate(ddl, nseq=300, seqlen=12, seed=1, verbose=False):
    """random statement sequences (the library's statement shapes, small id space so that chains, duplicates and constraint failures
    all occur) through the model and through the real SQLite; compares return status and full table contents after every statement.
    Returns (sequences, statements, first divergence or None)."""
    rnd = random.Random(seed); nst = 0
    for sq in range(nseq):
        real = real_db(ddl); mod = ModelDB(ddl); hist = []
        seed = ("INSERT INTO Information (id, uuid, schemaVersionMajor, schemaVersionMinor, schemaVersionPatch, currentPlayedIndiciator, lastRekordBoxLibraryImportReadCounter) VALUES (?, ?, ?, ?, ?, ?, ?)", (1, 'uuid-1', 2, 21, 2, 0, 0))
        real.execute(*seed); mod.run(*seed)
        for step in range(seqlen):
            sql, shape = rnd.choice(PLAYLIST_STMTS)
            ids = lambda: rnd.choice([0, 1, 2, 3, 4, 5, -1, -2, -3])
            if shape == 'ins': p = (rnd.choice('abcd'), rnd.choice([0, 0, 1, 2, 3]), rnd.choice([0, 1]), rnd.choice([0, 0, 0, 1, 2, 3]), 'now', 1)
            elif shape == 'id': p = (ids(),)
            elif shape == 'id2': p = (ids(), ids())
            elif shape == 'nnp': p = (ids(), ids(), rnd.choice([0, 1, 2, 3]))
            elif shape == 'upd': p = (rnd.choice('abcd'), rnd.choice([0, 1, 2, 3]), rnd.choice([0, 1]), ids(), 'now', 1, rnd.choice([1, 2, 3, 4]))
            elif shape == 'upd2': p = (rnd.choice('abcd'), rnd.choice([0, 1]), 'now', 1, rnd.choice([1, 2, 3, 4]))
            elif shape == 'eins': p = (rnd.choice([1, 2, 3]), rnd.choice([1, 2, 3, 4]), 'uuid', 0, 0)
            elif shape == 'eupd': p = (ids(), rnd.choice([1, 2, 3]), ids())
            elif shape == 'tins': p = ('p%d' % rnd.randrange(4), 'f', rnd.choice([None, 0, 7]), rnd.choice([None, '', 'other']))
            elif shape == 'tins_id': p = (rnd.choice([1, 2, 3, 4, 9]), 'q%d' % rnd.randrange(4), 'f')
            elif shape == 'tupd': p = (rnd.choice('xy'), rnd.choice([1, 2, 3, 4]))
            hist.append((sql, p)); nst += 1
            # the recursive views do not terminate on a cycle in the real SQLite: stop the sequence before any statement could reach them
            pl = real.execute(READS[0]).fetchall()
            try:
                real.execute(sql, p); rr = 'ok'
            except sqlite3.IntegrityError: rr = 'constraint'
            except sqlite3.OperationalError as e: rr = 'nonterm' if 'interrupt' in str(e) else 'error'
            try: mr = mod.run(sql, p)
            except models_rel.E.Bug as b: mr = b.kind if hasattr(b, 'kind') else 'nonterm'
            mr = {models_sqlite.SQLITE_DONE: 'ok', models_sqlite.SQLITE_CONSTRAINT: 'constraint', models_sqlite.SQLITE_ERROR: 'error'}.get(mr, mr)
            if rr != mr: return nst, sq, ('status', hist, rr, mr)
            if rr == 'nonterm': break
            cyc = has_cycle(real.execute(READS[0]).fetchall())
            for rd in (READS[:2] if cyc else READS) + READS_TAIL:
                a = sorted(real.execute(rd).fetchall(), key=repr); b = sorted(mod.run(rd), key=repr)
                if a != b: return nst, sq, ('contents', hist, rd, a, b)
            if cyc: break
            ls = real.execute("SELECT seq FROM sqlite_sequence WHERE name = 'Playlist'").fetchall()
    return nst, nseq, None
V1_STMTS = [
    ("UPDATE Crate SET path = ? WHERE id = ?", 'si'), ("DELETE FROM CrateTrackList WHERE crateId = ? AND trackId = ?", 'ii'),
    ("INSERT INTO CrateTrackList (crateId, trackId) VALUES (?, ?)", 'ii'), ("DELETE FROM CrateTrackList WHERE crateId = ?", 'i'),
    ("INSERT INTO Crate (id, title, path) VALUES (?, ?, ?)", 'iss'), ("INSERT INTO Crate (title, path) VALUES (?, ?)", 'ss'),
    ("INSERT INTO CrateParentList (crateOriginId, crateParentId) VALUES (?, ?)", 'ii'),
    ("INSERT INTO CrateHierarchy (crateId, crateIdChild) SELECT crateId, ? FROM CrateHierarchy WHERE crateIdChild = ? UNION SELECT ? AS crateId, ? AS crateIdChild", 'iiii'),
    ("UPDATE Crate SET title = ?, path = ? WHERE id = ?", 'ssi'), ("DELETE FROM CrateParentList WHERE crateOriginId = ?", 'i'),
    ("DELETE FROM CrateHierarchy WHERE crateIdChild = ?", 'i'), ("DELETE FROM Crate WHERE id = ?", 'i'),
    ("INSERT INTO Track (path, filename) VALUES (?, ?)", 'ss'), ("DELETE FROM Track WHERE id = ?", 'i'),
    # shapes the library does not use today but a plausible rewrite would (IN lists, LIKE, substr, length, ||): validated so that a change to /repo that uses them is decided, not refused
    ("DELETE FROM CrateTrackList WHERE crateId IN (1, 3)", ''), ("DELETE FROM CrateHierarchy WHERE crateId IN (2) OR crateIdChild IN (2, 4)", ''),
    ("UPDATE Crate SET path = ? || substr(path, length(?) + 1) WHERE id <> ? AND path LIKE ? || '%'", 'ssis'),
]
V1_READS = ["SELECT id, title, path FROM Crate ORDER BY id", "SELECT crateOriginId, crateParentId FROM CrateParentList", "SELECT crateId, crateIdChild FROM CrateHierarchy",
            "SELECT crateId, trackId FROM CrateTrackList", "SELECT IFNULL(MAX(id), 0) + 1 FROM Crate", "SELECT id FROM Track ORDER BY id",
            "SELECT path FROM Crate c JOIN CrateParentList cpl ON c.id = cpl.crateParentId WHERE cpl.crateOriginId = 2 AND cpl.crateOriginId <> cpl.crateParentId",
            "SELECT cr.id FROM Crate cr JOIN CrateParentList cpl ON (cpl.crateOriginId = cr.id) WHERE cr.title = 'a' AND cpl.crateParentId = 1 ORDER BY cr.id",
            "SELECT crateOriginId FROM CrateParentList WHERE crateParentId = crateOriginId ORDER BY crateOriginId"]
def real_db_v1(ddl):
    c = sqlite3.connect(':memory:', isolation_level=None)
    c.execute("ATTACH ':memory:' AS music"); c.execute("ATTACH ':memory:' AS perfdata")
    for s in ddl: c.execute(s)
    c.set_progress_handler(lambda: 1, 2000000)
    return c
def validate_v1(ddl, nseq=200, seqlen=14, seed=1):
    rnd = random.Random(seed); nst = 0
    for sq in range(nseq):
        real = real_db_v1(ddl); mod = ModelDB(ddl); hist = []
        for step in range(seqlen):
            sql, shape = rnd.choice(V1_STMTS)
            p = tuple(rnd.choice([1, 2, 3, 4]) if ch == 'i' else rnd.choice(['a', 'b', 'a;b;', 'a;', 'A;', 'a_', '%;', 'B;a;']) for ch in shape)
            hist.append((sql, p)); nst += 1
            try: real.execute(sql, p); rr = 'ok'
            except sqlite3.IntegrityError: rr = 'constraint'
            except sqlite3.OperationalError as e: rr = 'error'
            try: mr = mod.run(sql, p)
            except models_rel.E.Bug as b: mr = 'bug'
            mr = {models_sqlite.SQLITE_DONE: 'ok', models_sqlite.SQLITE_CONSTRAINT: 'constraint', models_sqlite.SQLITE_ERROR: 'error'}.get(mr, mr)
            if rr != mr: return nst, sq, ('status', hist, rr, mr)
            for rd in V1_READS:
                a = real.execute(rd).fetchall(); b = mod.run(rd)
                if 'ORDER BY' not in rd: a = sorted(a, key=repr); b = sorted(b, key=repr)
                if a != b: return nst, sq, ('contents', hist, rd, a, b)
    return nst, nseq, None
if __name__ == '__main__' and len(sys.argv) > 2 and sys.argv[2] == 'v1':
    for idx in (0, 3, 7, 10, 9):
        ddl = ddl_for(1, idx)
        sch = models_rel.Schema(ddl)
        print(idx, len(ddl), 'statements; tables', len(sch.tables), 'triggers', len(sch.triggers), 'views', len(sch.views), 'view defs', len(sch.view_defs), 'unparsed', sch.unparsed[:2])
        print(str(validate_v1(ddl, nseq=int(sys.argv[1])))[:1500])
    sys.exit(0)
if __name__ == '__main__':
    for idx in (0, 6):
        ddl = ddl_for(2, idx)
        sch = models_rel.Schema(ddl)
        print(idx, len(ddl), 'statements; tables', len(sch.tables), 'triggers', len(sch.triggers), 'views', len(sch.views), 'unparsed', sch.unparsed[:3])
        print(validate(ddl, nseq=int(sys.argv[1]) if len(sys.argv) > 1 else 300))
