#!/usr/bin/env python3-vt
"""replay.py <replay file> - re-run a recorded counterexample against the real code (native ASan/UBSan build of the
harness from /repo's current tree)."""
import sys, os, json
sys.path.insert(0, os.path.dirname(os.path.dirname(os.path.abspath(__file__))))
from lsx import driver
NATIVE = {'default': {'extra_src': ['src/djinterop/engine/encode_decode_utils.cpp'], 'libs': ('-lz',)}}
def main():
    path = sys.argv[1]
    meta = json.load(open(path + '.json'))
    spec = NATIVE.get(meta['harness'], NATIVE['default'])
    exe = driver.build_native(meta['harness'], extra_src=spec['extra_src'], libs=spec['libs'])
    rc, out, err = driver.run_native(exe, meta['entry'], path, meta.get('params'))
    rep, desc = driver.classify_native(rc, out, err)
    print(out[-2000:]); print(err[-3000:])
    print('REPRODUCED: ' + desc if rep else 'NOT REPRODUCED: ' + desc)
    sys.exit(1 if rep else 0)
main()
