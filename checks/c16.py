#!/usr/bin/env python3-vt
"""C16 - observing a library never modifies it.  Every public observing operation is executed from the public wrapper
down to the abstract sqlite3 model with arbitrary database answers; on no path may a write / DDL / transaction
statement be prepared.  (Statement text is read from the concrete bytes handed to sqlite3_prepare_v2.)"""
import sys, os
sys.path.insert(0, os.path.dirname(os.path.abspath(__file__)))
import common, api_common
from common import Check, run_jobs, TIER
from lsx import driver
HOOKS = {'on_end': api_common.oracle_c16}
HOOKS_LOAD = {'on_end': api_common.oracle_c16_load}
import c13, catalog       # registers the 'c13' model set (abstract sqlite3 + stat() model) / catalog model for verify()
CATS = {}
common.register_models('abs_v2_one', lambda eng: api_common.install_abstract_v2(eng, rows_mode='one'))
common.register_models('abs_v2_any', lambda eng: api_common.install_abstract_v2(eng, rows_mode='any'))
common.register_models('abs_v2_text', lambda eng: api_common.install_abstract_v2(eng, rows_mode='one', sym_text=2))
try:
    import api_v1
    HAVE_V1 = True
except ImportError:
    HAVE_V1 = False

def main():
    ck = Check('C16')
    ll = driver.compile_ir('h_api_v2.cpp'); driver.load_module(ll)
    jobs = []
    schemas = [0, 6] if TIER == 'quick' else [0, 1, 3, 6]
    for op, name in sorted(api_common.OBSERVERS_V2.items()):
        for sc in schemas:
            for mdl in ('abs_v2_one', 'abs_v2_any', 'abs_v2_text'):
                jobs.append(dict(harness='h_api_v2.cpp', ll=ll, entry='h_op', params={'op': op, 'schema': sc, 'wide': 0, 'count': 3}, models=[mdl], known=ck.known, must_reach=['call'],
                                 hooks=('c16', 'HOOKS'), replay='none', allow_throw='none', other_property_kinds=['undef', 'oob', 'ubsan', 'fpcast', 'null', 'overflow', 'uaf', 'shift', 'div0', 'unreachable', 'badfree', 'doublefree', 'terminate', 'trap'], eng_opts={'max_paths': 3000}, label=name))
    if HAVE_V1: jobs += api_v1.jobs_c16(ck)
    # loading itself and database_exists(): real load_database / detect_* / engine_storage(directory) over the abstract sqlite3 + stat() model of C13, to the point
    # where the connection is closed again; nothing but reads and ATTACH may be executed (sqlite3_exec included)
    lld = driver.compile_ir('h_detect.cpp'); driver.load_module(lld)
    for e, mr, pr in (('h_load', ['load-called', 'loaded', 'statements-checked'], {'poison': 0}), ('h_exists', ['exists-called', 'statements-checked'], {})):
        jobs.append(dict(harness='h_detect.cpp', ll=lld, entry=e, params=pr, models=['c13'], known=ck.known, must_reach=mr, hooks=('c16', 'HOOKS_LOAD'), replay='none', allow_throw='none',
                         eng_opts={'max_steps': 3000000, 'max_paths': 40000}, assert_filter='^C16', label=e, max_bugs=12))
    # verify(): the real validators over the catalog model (checks/catalog.py, undeviated catalog of a natively created library)
    exe = catalog.build_tool(); outdir = os.path.join(driver.BUILD, 'c16_libs'); created = catalog.create_all(exe, outdir)
    llv = driver.compile_ir('h_verify.cpp'); driver.load_module(llv)
    for en in ([10, 17] if TIER == 'quick' else sorted(created)):
        if en not in created or en > 17: continue
        CATS[en] = catalog.read_catalog(os.path.join(outdir, str(en)))
        common.register_models('cat16_%d' % en, (lambda en_: (lambda eng: catalog.install(eng, CATS[en_], [], 'last')))(en))
        jobs.append(dict(harness='h_verify.cpp', ll=llv, entry='h_verify', params={'schema_enum': en}, models=['cat16_%d' % en], known=ck.known, must_reach=['accepted', 'statements-checked'],
                         hooks=('c16', 'HOOKS_LOAD'), replay='none', allow_throw='none', eng_opts={'max_steps': 100000000}, assert_filter='^C16', label='verify'))
    ck.add_results(run_jobs(jobs))
    ck.extra['bounds'] = {'operations': sorted(api_common.OBSERVERS_V2.values()) + (api_v1.observer_names() if HAVE_V1 else []),
                          'database_answers': 'every SELECT returns exactly one row (run A) or 0..2 rows (run B) of arbitrary values; blob columns hold the encoding of an arbitrary valid struct',
                          'outside': 'SQLite-internal effects of read statements, handle state (the accessors are stateless by construction)', 'whole_library_observers': 'load_database, database_exists() over the abstract sqlite3 + stat() model (every version triple, file-system state), verify() over the undeviated catalog model'}
    ck.assumptions = ['abstract sqlite3 model: only statements that the library prepares can modify the database; classification by leading SQL keyword (PRAGMA with "=" counts as a write)']
    ck.trusted = ['clang-14 lowering', 'lsx executor', 'lsx/models_sqlite.py', 'z3']
    ck.finish()
if __name__ == '__main__': main()
