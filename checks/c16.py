#!/usr/bin/env python3-vt
"""C16 - observing a library never modifies it.  Every public observing operation is executed from the public wrapper
down to the abstract sqlite3 model with arbitrary database answers; on no path may a write / DDL / transaction
statement be prepared.  (Statement text is read from the concrete bytes handed to sqlite3_prepare_v2.)"""
import sys, os
sys.path.insert(0, os.path.dirname(os.path.abspath(__file__)))
import common, api_common
from common import Check, run_jobs, TIER
from lsx import driver
HOOKS = {'on_end': api_common.oracle_c16}
common.register_models('abs_v2_one', lambda eng: api_common.install_abstract_v2(eng, rows_mode='one'))
common.register_models('abs_v2_any', lambda eng: api_common.install_abstract_v2(eng, rows_mode='any'))
try:
    import api_v1
    HAVE_V1 = True
except ImportError:
    HAVE_V1 = False

def main():
    ck = Check('C16')
    ll = driver.compile_ir('h_api_v2.cpp'); driver.load_module(ll)
    jobs = []
    schemas = [0, 6] if TIER == 'quick' else [0, 1, 3, 6]
    for op, name in sorted(api_common.OBSERVERS_V2.items()):
        for sc in schemas:
            for mdl in ('abs_v2_one', 'abs_v2_any'):
                jobs.append(dict(harness='h_api_v2.cpp', ll=ll, entry='h_op', params={'op': op, 'schema': sc, 'wide': 0, 'count': 3}, models=[mdl], known=ck.known, must_reach=['call'],
                                 hooks=('c16', 'HOOKS'), replay='none', allow_throw='none', other_property_kinds=['undef', 'oob', 'ubsan', 'fpcast', 'null', 'overflow', 'uaf', 'shift', 'div0', 'unreachable', 'badfree', 'doublefree', 'terminate', 'trap'], eng_opts={'max_paths': 3000}, label=name))
    if HAVE_V1: jobs += api_v1.jobs_c16(ck)
    ck.add_results(run_jobs(jobs))
    ck.extra['bounds'] = {'operations': sorted(api_common.OBSERVERS_V2.values()) + (api_v1.observer_names() if HAVE_V1 else []),
                          'database_answers': 'every SELECT returns exactly one row (run A) or 0..2 rows (run B) of arbitrary values; blob columns hold the encoding of an arbitrary valid struct',
                          'outside': 'verify() (schema validators), SQLite-internal effects of read statements, handle state (the accessors are stateless by construction); loading is covered under C13\'s harness only for which files are opened'}
    ck.assumptions = ['abstract sqlite3 model: only statements that the library prepares can modify the database; classification by leading SQL keyword (PRAGMA with "=" counts as a write)']
    ck.trusted = ['clang-14 lowering', 'lsx executor', 'lsx/models_sqlite.py', 'z3']
    ck.finish()
if __name__ == '__main__': main()
