"""crates_common.py - shared by C07 (one well-formed forest) and C09 (ordered listings): the crate harness (harness/h_crates.h) over the
relational sqlite3 model whose schema (tables, UNIQUE constraints, triggers) is parsed from the DDL in /repo's schema creators.
history = concrete prefix (a forest shape, incl. prefixes with removals and moves so that ids, sibling order and row order diverge) followed
by 1 (quick) or up to 2-3 (thorough) operations whose kind, operands and names are symbolic.  After every operation the full query surface
is compared with the reference forest.  Sampled completed paths and every counterexample are replayed natively: the same harness body,
public API only, against the library built from /repo's working tree and the real SQLite."""
import sys, os, re, json
sys.path.insert(0, os.path.dirname(os.path.abspath(__file__)))
import common, api_common, rel_common, raw_reader
from common import Check, run_jobs, TIER
from lsx import driver, models_zlib, models_rel

def _mk(gen, idx):
    def install(eng):
        api_common.install_time_stubs(eng)
        models_rel.install_rel(eng, {'ddl': rel_common.ddl_for(gen, idx), 'seed': rel_common.seed_for(gen, idx)})
        # the independent raw-table reader belongs to C11: in a C07 / C08 / C09 run its assertion (which fires BEFORE the API-level comparison)
        # would end the path as "another property's assertion" and hide the API-level violation behind it (found with seeded change C07-1)
        if READER_ON: raw_reader.install(eng, gen)
        eng.inc_timeout_ms = 1000; eng.timeout_ms = 10000
    return install
for _g, _n in ((2, 7), (1, 11)):
    for _i in range(_n): common.register_models('rel_g%d_s%d' % (_g, _i), _mk(_g, _i))

READER_ON = False
ROOT, ROOT_AFTER, SUB, SUB_AFTER, RENAME, MOVE, REMOVE = range(7)
def enc(ops, word=0):
    w = 0
    for i, (k, a, b, n) in enumerate(ops[4 * word:4 * word + 4]): w |= (k | (a << 4) | ((b & 15) << 8) | (n << 12)) << (16 * i)
    return w
def pre(shape): return dict(prefix=enc(SHAPES[shape]), prefix2=enc(SHAPES[shape], 1), npre=len(SHAPES[shape]), shape=shape)
SHAPES = {
    'empty': [],
    'chain3+1': [(ROOT, 0, 0, 0), (SUB, 0, 0, 1), (SUB, 1, 0, 2), (ROOT, 0, 0, 3)],
    'fan3': [(ROOT, 0, 0, 0), (SUB, 0, 0, 1), (SUB, 0, 0, 2), (SUB, 0, 0, 3)],
    'roots3+child': [(ROOT, 0, 0, 0), (ROOT, 0, 0, 1), (ROOT, 0, 0, 2), (SUB, 1, 0, 3)],
    'twins': [(ROOT, 0, 0, 0), (ROOT, 0, 0, 1), (SUB, 0, 0, 2), (SUB, 1, 0, 2)],
    # ids, sibling order and creation order all differ: b removed, d inserted after a, c moved under a, e inserted between a's children
    'churned': [(ROOT, 0, 0, 0), (ROOT, 0, 0, 1), (ROOT, 0, 0, 2), (REMOVE, 1, 0, 0), (ROOT_AFTER, 0, 0, 3), (MOVE, 2, 0, 0), (SUB, 0, 0, 4)],
    'moved-middle': [(ROOT, 0, 0, 0), (SUB, 0, 0, 1), (SUB, 0, 0, 2), (SUB, 0, 0, 3), (ROOT, 0, 0, 4), (MOVE, 2, 4, 0), (SUB_AFTER, 0, 1, 5)],
    'pair': [(ROOT, 0, 0, 0), (SUB, 0, 0, 1)],
    'one': [(ROOT, 0, 0, 0)],
}
ALL = 127
def configs(gen):
    Q = TIER == 'quick'
    schemas = ([6, 0] if Q else list(range(7))) if gen == 2 else ([10, 0] if Q else list(range(11)))
    out = []
    for si, sc in enumerate(schemas):
        shapes = ['chain3+1', 'fan3', 'roots3+child', 'twins', 'churned', 'moved-middle', 'empty'] if (si == 0 or not Q) else ['churned', 'chain3+1']
        for sh in shapes:
            out.append(dict(gen=gen, schema=sc, **pre(sh), nsym=1, kinds=ALL))
        if si == 0:
            # two symbolic operations from small forests (structure-changing kinds first, then all kinds from the smallest)
            out.append(dict(gen=gen, schema=sc, **pre('pair'), nsym=2, kinds=(1 << MOVE) | (1 << REMOVE) | (1 << SUB_AFTER) | (1 << ROOT_AFTER)))
            out.append(dict(gen=gen, schema=sc, **pre('one'), nsym=2, kinds=ALL))
            if not Q:
                out.append(dict(gen=gen, schema=sc, **pre('pair'), nsym=2, kinds=ALL))
                out.append(dict(gen=gen, schema=sc, **pre('one'), nsym=3, kinds=(1 << MOVE) | (1 << REMOVE) | (1 << SUB) | (1 << ROOT_AFTER)))
                out.append(dict(gen=gen, schema=sc, **pre('fan3'), nsym=2, kinds=(1 << MOVE) | (1 << REMOVE)))
    return out

HARNESS = {2: 'h_crates_v2.cpp', 1: 'h_crates_v1.cpp'}
def native_validate(ck, results, per_job=4):
    """replay sampled completed paths through the public API of the real library over the real SQLite: every one must finish without a
    failed assertion (the model of SQLite and the executor agree with the real thing on that history)"""
    bad = 0
    for r in results:
        h = r.job['harness']
        try: exe = ck.native_for(h)
        except Exception as e:
            ck.machinery.append('native build failed for %s: %r' % (h, e)); return 1
        for i, smp in enumerate(r.samples[:per_job]):
            path = os.path.join(driver.BUILD, 'nv_%s_%d_%d.txt' % (r.entry, os.getpid(), i))
            driver.write_replay(path, smp['inputs'])
            rc, out, err = driver.run_native(exe, r.entry, path, {k: v for k, v in r.params.items() if isinstance(v, int)}, assert_filter=r.job.get('assert_filter'))
            ck.tv_cases += 1
            nat_reach = [l.split(' ', 1)[1] for l in out.splitlines() if l.startswith('REACH ')]
            sym_reach = [x for x in smp.get('reached', nat_reach) if x != 'raw-tables-read']       # (the raw-table reader only runs on the model)
            if rc != 0 or nat_reach != sym_reach:
                bad += 1
                rep, desc = driver.classify_native(rc, out, err)
                keep = os.path.join(common.OUT, 'replays', ck.prop, 'native-%s-%d-%d.txt' % (r.params.get('shape'), r.params.get('schema'), i))
                driver.write_replay(keep, smp['inputs'], {'property': ck.prop, 'harness': h, 'entry': r.entry, 'params': r.params, 'kind': 'native-divergence', 'message': desc, 'inputs': smp['inputs']})
                if rep and 'VERIF-ASSERT-FAILED' in str(desc) and re.search(ck.assert_filter, str(desc)):
                    # the executor (over the SQLite model) passed this history, the real library over the real SQLite fails the property's assertion
                    ck.violations.append((keep, {'kind': 'assert', 'msg': 'native run of a history the model passed: %s' % desc}, desc))
                else:
                    ck.machinery.append('NATIVE-VALIDATION mismatch %s%s: native rc=%d %s reach=%s, executor returned normally reach=%s' % (r.entry, r.params, rc, desc, nat_reach, smp.get('reached')))
    return bad

def run(prop, assert_filter, gens=(2,), members=(), entities=True, must=('prefix-built', 'checked')):
    global READER_ON
    READER_ON = (prop == 'C11')
    ck = Check(prop)
    ck.assert_filter = assert_filter
    # the raw-table reader (C11) only exists on the model side: its counterexamples cannot be confirmed by the native twin, which has no reader
    replay_mode = 'none' if prop == 'C11' else 'native'
    jobs = []
    eo = {'max_steps': 60000000, 'max_paths': 6000}
    for gen in gens:
        ll = driver.compile_ir(HARNESS[gen]); driver.load_module(ll)
        ck.native_spec[HARNESS[gen]] = {'public': True}
        for p in configs(gen):
            pp = {k: v for k, v in p.items()}
            jobs.append(dict(harness=HARNESS[gen], ll=ll, entry='h_crates', params=pp, models=['zlib_identity', 'rel_g%d_s%d' % (gen, p['schema'])], known=ck.known,
                             must_reach=list(must), eng_opts=eo, replay=replay_mode, time_limit=1500, allow_throw='none', nsamples=4, max_bugs=12,
                             assert_filter=assert_filter, label=p['shape']))
    if members:
        # the entry-order clause (playlist entries are listed in the order added) is asserted by the membership harness
        import c08
        for gen in members:
            ll = driver.compile_ir(c08.HARNESS[gen]); driver.load_module(ll)
            ck.native_spec[c08.HARNESS[gen]] = {'public': True}
            for p in c08.configs(gen):
                jobs.append(dict(harness=c08.HARNESS[gen], ll=ll, entry='h_members', params=dict(p), models=['zlib_identity', 'rel_g%d_s%d' % (gen, p['schema'])], known=ck.known,
                                 must_reach=list(must), eng_opts=eo, replay=replay_mode, time_limit=1500, allow_throw='none', nsamples=2, max_bugs=12,
                                 assert_filter=assert_filter, label='members:' + p['shape']))
        # table-level playlist-entity listing with arbitrary values in the "need not be populated" row fields
        if 2 in gens and entities:
            ll = driver.compile_ir('h_entities_v2.cpp'); driver.load_module(ll)
            ck.native_spec['h_entities_v2.cpp'] = {'public': True}
            for sc in ([6, 0] if TIER == 'quick' else range(7)):
                for n, pattern in ((4, 0b0110), (5, 0b01010)) if TIER == 'quick' else ((4, 0b0110), (5, 0b01010), (6, 0b000111), (3, 0)):
                    for then in (0, 1, 2):
                        jobs.append(dict(harness='h_entities_v2.cpp', ll=ll, entry='h_entities', params=dict(gen=2, schema=sc, n=n, pattern=pattern, then=then, nsym=0, shape='entities'),
                                         models=['zlib_identity', 'rel_g2_s%d' % sc], known=ck.known, must_reach=['added', 'checked'], eng_opts=eo, replay=replay_mode, time_limit=600,
                                         allow_throw='none', nsamples=1, max_bugs=6, assert_filter=assert_filter, label='entities'))
    if os.environ.get('VERIF_GEN'): jobs = [j for j in jobs if str(j['params']['gen']) == os.environ['VERIF_GEN']]
    jobs.sort(key=lambda j: -j['params']['nsym'])
    res = run_jobs(jobs)
    ck.add_results(res)
    native_validate(ck, res)
    # the SQLite model against the real SQLite on the statement shapes of the table classes (random sequences, concrete values)
    nst = 0
    for gen in gens:
        if gen == 2:
            for idx in ([6, 0] if TIER == 'quick' else range(7)):
                n, nseq, div = rel_common.validate(rel_common.ddl_for(2, idx), nseq=150 if TIER == 'quick' else 1500, seed=idx + 1)
                nst += n
                if div: ck.machinery.append('SQL-MODEL-VALIDATION divergence from the real SQLite (schema index %d): %s' % (idx, json.dumps(div, default=str)[:600]))
        if gen == 1:
            for idx in ([10, 0] if TIER == 'quick' else [0, 1, 3, 7, 9, 10]):
                n, nseq, div = rel_common.validate_v1(rel_common.ddl_for(1, idx), nseq=80 if TIER == 'quick' else 600, seed=idx + 1)
                nst += n
                if div: ck.machinery.append('SQL-MODEL-VALIDATION divergence from the real SQLite (1.x schema index %d): %s' % (idx, json.dumps(div, default=str)[:600]))
    ck.extra['sql_model_validation'] = {'statements_compared_with_real_sqlite': nst}
    ck.extra['bounds'] = {'forest': 'prefix shapes of up to 5 live crates / depth 3 (%s), then 1 symbolic operation (all seven kinds, every operand, symbolic one-byte or empty name); '
                                    '2 symbolic operations from forests of 1-2 crates (thorough: 3 from one crate, 2 from a fan of 4)' % ', '.join(sorted(SHAPES)),
                          'schemas': 'quick: newest and oldest version of the generation; thorough: every version',
                          'outside': 'longer histories, names longer than one byte, more than 6 crates, concurrent connections'}
    ck.assumptions = ['lsx/models_rel.py stands for SQLite (validated on every run against the real SQLite: random statement sequences + native replay of sampled paths)',
                      'time stamps replaced by fixed values (date formatting is not the subject)',
                      'reference forest in harness/h_crates.h written from the property statement; a removal removes the whole subtree; operations that are legal per the statement must succeed, '
                      'the ones it names (invalid name, cycle) and operations on removed/foreign operands or duplicate sibling names must throw and leave no effect']
    ck.trusted = ['clang-14 lowering', 'lsx executor', 'lsx/models_rel.py', 'z3']
    ck.finish()
