#!/usr/bin/env python3-vt
"""C11 (partial) - the stored database stays a well-formed Engine library, as judged by an independent reader of the raw tables.
The crate (C07) and membership (C08) histories are re-run with checks/raw_reader.py after every operation: it reads the raw rows of the
relational sqlite3 model with plain SELECTs (nothing of the library's accessors) and judges them against the documented layout: 2.x sibling and
entity chains are single acyclic lists covering all rows, parents and list / track references resolve, a track's origin ids name the track and
the database, file name agrees with the path; 1.x path strings, parent list and flattened hierarchy describe the same forest and the track lists
refer to existing crates and tracks.  Outside this check: SQLite's own integrity / foreign-key checks and verify() (facts about SQLite), blob
decodability (C03), derived extension / file-type columns (C06)."""
import sys, os
sys.path.insert(0, os.path.dirname(os.path.abspath(__file__)))
import crates_common
if __name__ == '__main__': crates_common.run('C11', r'C11', gens=(2, 1), members=(2, 1), entities=False, must=('prefix-built', 'checked', 'raw-tables-read'))
