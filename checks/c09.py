#!/usr/bin/env python3-vt
"""C09 - ordered listings keep every sibling and entry exactly once, in order (schema 2.x; see crates_common.py)."""
import sys, os
sys.path.insert(0, os.path.dirname(os.path.abspath(__file__)))
import crates_common
if __name__ == '__main__': crates_common.run('C09', r'C09', gens=(2,), members=(2,))
