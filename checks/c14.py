#!/usr/bin/env python3-vt
"""C14 - a failed mutating call leaves no partial update.  Every public mutating operation is executed over the abstract
sqlite3 model with ONE injected statement failure at a position the executor forks over (every write statement,
every COMMIT and - in separate runs - every read statement, on every path - "all k" is literal).  At the end of the call: the failure must have been reported by an
exception, no transaction may be open, and no write may have taken effect outside a rolled-back transaction."""
import sys, os
sys.path.insert(0, os.path.dirname(os.path.abspath(__file__)))
import common, api_common
from common import Check, run_jobs, TIER
from lsx import driver
HOOKS = {'on_end': api_common.oracle_c14}
common.register_models('abs_v2_fail', lambda eng: api_common.install_abstract_v2(eng, fail='one', rows_mode='one'))
common.register_models('abs_v2_fail_any', lambda eng: api_common.install_abstract_v2(eng, fail='one', rows_mode='any'))
common.register_models('abs_v2_failr', lambda eng: api_common.install_abstract_v2(eng, fail='one', rows_mode='one', fail_reads=True))
try:
    import api_v1
    HAVE_V1 = True
except ImportError:
    HAVE_V1 = False

def main():
    ck = Check('C14', level='model_checking')
    ll = driver.compile_ir('h_api_v2.cpp'); driver.load_module(ll)
    jobs = []
    schemas = [6] if TIER == 'quick' else [0, 1, 3, 6]
    for op, name in sorted(api_common.MUTATORS_V2.items()):
        for sc in schemas:
            for mdl in ('abs_v2_fail', 'abs_v2_fail_any', 'abs_v2_failr'):
                jobs.append(dict(harness='h_api_v2.cpp', ll=ll, entry='h_op', params={'op': op, 'schema': sc, 'wide': 0, 'count': 3}, models=[mdl], known=ck.known, must_reach=['call'],
                                 hooks=('c14', 'HOOKS'), replay='none', allow_throw='none', other_property_kinds=['undef', 'oob', 'ubsan', 'fpcast', 'null', 'overflow', 'uaf', 'shift', 'div0', 'unreachable', 'badfree', 'doublefree', 'terminate', 'trap'], eng_opts={'max_paths': 6000}, label=name, max_bugs=12))
    if HAVE_V1: jobs += api_v1.jobs_c14(ck)
    rs = run_jobs(jobs)
    ck.add_results(rs)
    if not ck.reach_summary().get('failure-checked'): ck.machinery.append('vacuity guard: no path with an injected failure reached the oracle')
    if not ck.reach_summary().get('read-failure-checked'): ck.machinery.append('vacuity guard: no path with an injected read failure reached the oracle')
    ck.extra['bounds'] = {'operations': sorted(api_common.MUTATORS_V2.values()) + (api_v1.mutator_names() if HAVE_V1 else []),
                          'faults': 'exactly one failing statement per run, at every position on every path: a write statement (SQLITE_CONSTRAINT), a COMMIT (SQLITE_BUSY, transaction stays open) or - separate runs - a SELECT / PRAGMA query failing on its first step (SQLITE_BUSY)',
                          'prior_state': 'arbitrary: every SELECT answers one row of arbitrary values (thorough: also 0..2 rows)',
                          'outside': 'a read failing after it has delivered rows, failures of ROLLBACK itself, more than one failure per call; SQLite\'s statement-level atomicity is assumed (a failing statement has no effect)'}
    ck.assumptions = ['abstract sqlite3 model with transaction state; a write outside BEGIN..COMMIT takes effect immediately, writes inside are undone by ROLLBACK',
                      'a busy COMMIT leaves the transaction open (SQLite documentation)']
    ck.trusted = ['clang-14 lowering', 'lsx executor', 'lsx/models_sqlite.py', 'z3']
    ck.finish()
if __name__ == '__main__': main()
