#!/usr/bin/env python3-vt
"""C05 - decoders are safe and terminate on arbitrary bytes (solver-based: lsx over the real decoders)."""
import sys, os
sys.path.insert(0, os.path.dirname(os.path.abspath(__file__)))
import common
from common import Check, run_jobs, TIER
from lsx import driver, models_zlib
common.register_models('zlib_contract', models_zlib.install_contract)

V2 = ['h_dec_beat_data', 'h_dec_quick_cues', 'h_dec_loops', 'h_dec_overview', 'h_dec_track_data']
V1 = ['h_dec1_beat_data', 'h_dec1_high_res', 'h_dec1_loops', 'h_dec1_overview', 'h_dec1_quick_cues', 'h_dec1_track_data']

def main():
    ck = Check('C05')
    lmax = 56 if TIER == 'quick' else 88
    ll2 = driver.compile_ir('h_dec_v2.cpp'); ll1 = driver.compile_ir('h_dec_v1.cpp')
    driver.load_module(ll2); driver.load_module(ll1)
    ck.native_spec = {'h_dec_v2.cpp': {'extra_src': ['src/djinterop/engine/encode_decode_utils.cpp']},
                      'h_dec_v1.cpp': {'extra_src': ['src/djinterop/engine/encode_decode_utils.cpp']}}
    jobs = []
    eng_opts = {'max_steps': 400000, 'max_paths': 20000, 'timeout_ms': 60000 if TIER == 'quick' else 600000}
    for L in range(lmax, -1, -1):
        for e in V2: jobs.append(dict(harness='h_dec_v2.cpp', ll=ll2, entry=e, params={'len': L}, models=['zlib_identity'], known=ck.known, eng_opts=eng_opts))
        for e in V1:
            if e == 'h_dec1_quick_cues' and L > 75: continue      # 8 cue slots x label-length forks: beyond 75 bytes the path count passes the cap (stated in the bounds)
            jobs.append(dict(harness='h_dec_v1.cpp', ll=ll1, entry=e, params={'len': L}, models=['zlib_identity'], known=ck.known, eng_opts=eng_opts))
    # beat data has no label forks: cover two grids of two markers each (v1 needs 17+8+48+8+48 = 129 bytes)
    for L in range(lmax + 1, 131 if TIER == 'quick' else 161):
        jobs.append(dict(harness='h_dec_v2.cpp', ll=ll2, entry='h_dec_beat_data', params={'len': L}, models=['zlib_identity'], known=ck.known, eng_opts=eng_opts))
        jobs.append(dict(harness='h_dec_v1.cpp', ll=ll1, entry='h_dec1_beat_data', params={'len': L}, models=['zlib_identity'], known=ck.known, eng_opts=eng_opts))
    # the REAL zlib wrappers over the contract stub of inflate/deflate
    llz = driver.compile_ir('h_zlib.cpp'); driver.load_module(llz)
    ck.native_spec['h_zlib.cpp'] = {'extra_src': [], 'libs': ('-lz',)}
    nmap = {'oob': 'h_zlib_native_window', 'nonterm': 'h_zlib_native_truncated', 'assert': 'h_zlib_native_window'}
    for L in (range(0, 13) if TIER == 'quick' else list(range(0, 25)) + [16388, 16389, 16400]):
        jobs.append(dict(harness='h_zlib.cpp', ll=llz, entry='h_zlib_uncompress', params={'len': L}, models=['zlib_contract'], known=ck.known, eng_opts=eng_opts,
                         native_entry_for=nmap, allow_throw='none'))
    for L in (list(range(0, 7)) + [16383, 16384, 32768] if TIER == 'quick' else list(range(0, 13)) + [16383, 16384, 16385, 16390, 32768, 49152]):
        jobs.append(dict(harness='h_zlib.cpp', ll=llz, entry='h_zlib_compress', params={'len': L}, models=['zlib_contract'], known=ck.known, eng_opts=eng_opts,
                         native_entry_for=dict(nmap, **{'assert': 'h_zlib_native_roundtrip'}), allow_throw='std'))
    ck.add_results(run_jobs(jobs))
    # translation validation of the executor against the native build on concrete payloads (seeded)
    import random
    rnd = random.Random(common.SEED)
    def payloads(entry, n):
        out = []
        for _ in range(n):
            L = rnd.choice([0, 7, 8, 25, 27, 28, 31, 33, 40, 44, 49, 57, 73, 81])
            b = [rnd.randrange(256) for _ in range(L)]
            if rnd.random() < 0.7 and L >= 8:
                # plausible header: small counts in both byte orders, zero sample data
                for i in range(min(L, 33)): b[i] = 0
                k = rnd.randrange(3)
                for off in (7, 0, 15, 24, 17 + 7):
                    if off < L and rnd.random() < 0.6: b[off] = k
            out.append(b)
        return out
    for harness, ll_, entries in (('h_dec_v2.cpp', ll2, V2), ('h_dec_v1.cpp', ll1, V1)):
        for e in entries:
            for b in payloads(e, 6 if TIER == 'quick' else 30):
                common.translation_validate(ck, harness, ll_, e, {'len': len(b)}, [b])
    ck.extra['translation_validation'] = 'executor vs native ASan/UBSan build on %d concrete payloads (REACH trace and termination must agree)' % ck.tv_cases
    ck.extra['bounds'] = {'payload_length': 'every length 0..%d (beat data: 0..%d; 1.x quick cues: 0..75), all bytes symbolic (embedded 64-bit counts and one-byte label lengths unconstrained)' % (lmax, 130 if TIER == 'quick' else 160),
                          'allocation': 'operator new(n): n > 16 MiB throws std::bad_alloc, otherwise succeeds',
                          'per_path_instruction_cap': eng_opts['max_steps'], 'zlib_wrappers': 'real zlib_uncompress/zlib_compress over a contract stub: inputs of the listed lengths, <= 8 inflate/deflate calls, <= 2 full output chunks',
                          'outside': 'payloads longer than the bound; libz itself'}
    ck.assumptions = ['identity zlib framing for the codecs (zlib_compress(x) = BE32(len) ++ x); the real wrappers are checked separately against a contract stub of inflate/deflate',
                      'libstdc++ basic_string/vector code is the real code (IR), operator new/delete, __cxa_* and std exception constructors are modelled',
                      'assert() is compiled out (-DNDEBUG) as in the shipped RelWithDebInfo build']
    ck.trusted = ['clang-14 lowering to LLVM IR', 'lsx executor (validated on concrete inputs against the native build)', 'z3 4.x/5.x']
    ck.finish()
if __name__ == '__main__': main()
