#!/usr/bin/env python3-vt
"""C05 - decoders are safe and terminate on arbitrary bytes (solver-based: lsx over the real decoders)."""
import sys, os
sys.path.insert(0, os.path.dirname(os.path.abspath(__file__)))
import common
from common import Check, run_jobs, TIER
from lsx import driver

V2 = ['h_dec_beat_data', 'h_dec_quick_cues', 'h_dec_loops', 'h_dec_overview', 'h_dec_track_data']
V1 = ['h_dec1_beat_data', 'h_dec1_high_res', 'h_dec1_loops', 'h_dec1_overview', 'h_dec1_quick_cues', 'h_dec1_track_data']

def main():
    ck = Check('C05')
    lmax = 56 if TIER == 'quick' else 88
    ll2 = driver.compile_ir('h_dec_v2.cpp'); ll1 = driver.compile_ir('h_dec_v1.cpp')
    driver.load_module(ll2); driver.load_module(ll1)
    ck.native_spec = {'h_dec_v2.cpp': {'extra_src': ['src/djinterop/engine/encode_decode_utils.cpp']},
                      'h_dec_v1.cpp': {'extra_src': ['src/djinterop/engine/encode_decode_utils.cpp']}}
    jobs = []
    eng_opts = {'max_steps': 400000, 'max_paths': 20000, 'timeout_ms': 60000 if TIER == 'quick' else 600000}
    for L in range(lmax, -1, -1):
        for e in V2: jobs.append(dict(harness='h_dec_v2.cpp', ll=ll2, entry=e, params={'len': L}, models=['zlib_identity'], known=ck.known, eng_opts=eng_opts))
        for e in V1: jobs.append(dict(harness='h_dec_v1.cpp', ll=ll1, entry=e, params={'len': L}, models=['zlib_identity'], known=ck.known, eng_opts=eng_opts))
    # beat data has no label forks: cover two grids of two markers each (v1 needs 17+8+48+8+48 = 129 bytes)
    for L in range(lmax + 1, 131 if TIER == 'quick' else 161):
        jobs.append(dict(harness='h_dec_v2.cpp', ll=ll2, entry='h_dec_beat_data', params={'len': L}, models=['zlib_identity'], known=ck.known, eng_opts=eng_opts))
        jobs.append(dict(harness='h_dec_v1.cpp', ll=ll1, entry='h_dec1_beat_data', params={'len': L}, models=['zlib_identity'], known=ck.known, eng_opts=eng_opts))
    ck.add_results(run_jobs(jobs))
    ck.extra['bounds'] = {'payload_length': 'every length 0..%d (beat data: 0..%d), all bytes symbolic (embedded 64-bit counts and one-byte label lengths unconstrained)' % (lmax, 130 if TIER == 'quick' else 160),
                          'allocation': 'operator new(n): n > 16 MiB throws std::bad_alloc, otherwise succeeds',
                          'per_path_instruction_cap': eng_opts['max_steps'], 'outside': 'payloads longer than the bound; libz itself (see zlib wrapper harness)'}
    ck.assumptions = ['identity zlib framing for the codecs (zlib_compress(x) = BE32(len) ++ x); the real wrappers are checked separately against a contract stub of inflate/deflate',
                      'libstdc++ basic_string/vector code is the real code (IR), operator new/delete, __cxa_* and std exception constructors are modelled',
                      'assert() is compiled out (-DNDEBUG) as in the shipped RelWithDebInfo build']
    ck.trusted = ['clang-14 lowering to LLVM IR', 'lsx executor (validated on concrete inputs against the native build)', 'z3 4.x/5.x']
    ck.finish()
if __name__ == '__main__': main()
