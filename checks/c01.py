#!/usr/bin/env python3-vt
"""C01 - track data written through a snapshot reads back unchanged (schema 2.x part).
Real database_impl::create_track / track::update / track::snapshot, the convert::read/write helpers, the five codecs,
track_table and sqlite_modern_cpp over the key/value sqlite3 model; symbolic snapshot fields; the oracle is the
normalisation the statement lists (8 slots, whole seconds, rating clamp, 0 / -1 sentinels) written in the harness."""
import sys, os
sys.path.insert(0, os.path.dirname(os.path.abspath(__file__)))
import common
from common import Check, run_jobs, TIER
from lsx import driver, models_zlib, models_sqlite, bv2int

def install(eng):
    models_sqlite.install_kv(eng, {'maintained': {'Track': ['lastEditTime']}, 'defaults': {'Track': {}}})
    eng.alt_solver = lambda pc, cond: bv2int.solve_int(pc, cond, 60000, None, getattr(eng, 'cur_ranges', None))
    eng.inc_timeout_ms = 400; eng.timeout_ms = 1200
common.register_models('kv_track_fast', install)
def install_v1(eng):
    models_sqlite.install_kv(eng, {'pk': {'MetaData': ('id', 'type'), 'MetaDataInteger': ('id', 'type')}, 'maintained': {}, 'defaults': {}})
    eng.alt_solver = lambda pc, cond: bv2int.solve_int(pc, cond, 60000, None, getattr(eng, 'cur_ranges', None))
    eng.inc_timeout_ms = 400; eng.timeout_ms = 2500
common.register_models('kv_track_v1', install_v1)
def install_v1_slow(eng):        # the waveform-extent arithmetic on a symbolic sample rate (fptosi, /210, *2, quotient) needs a longer z3 budget
    install_v1(eng); eng.timeout_ms = 30000
common.register_models('kv_track_v1_slow', install_v1_slow)
ALL = (1 << 60) - 1

def configs(gen=2):
    Q = TIER == 'quick'
    out = []
    if gen == 2: schemas = [0, 1, 6] if Q else [0, 1, 2, 3, 4, 5, 6]
    else: schemas = [0, 1, 3, 7, 10] if Q else list(range(11))       # one per column-list range of engine_storage (1.6.0, 1.7.1, 1.11.1, 1.15.0, 1.18.0-os) | all eleven 1.x versions
    # schema 1.x: with a sample rate and >= 2 markers the stored BPM is derived from the (symbolic) grid - a floating-point quotient that no
    # back end decides in budget - so the runs with a symbolic grid leave the sample rate absent, and the derived BPM is covered with the concrete grid of focus 2
    G3 = ALL if gen == 2 else ALL & ~(1 << 16) & ~(1 << 39)
    for sc in schemas:
        lite = Q and gen == 1 and sc in (1, 3)        # quick tier: the middle 1.x ranges run the string/integer group only
        for via in (0, 1):
            if lite:
                if via == 0: out.append(dict(schema=sc, via_update=via, focus=3, mask=G3, grid=3, cues=0x02, loops=0x80, wave=0))
                continue
            # group 2 (cue / loop slots incl. slot 0 and slot 7, empty slots in between), group 3 (strings, integers, key, time stamp, beat grid)
            out.append(dict(schema=sc, via_update=via, focus=2, mask=ALL, grid=2, cues=0x81, loops=0x05, wave=0))
            out.append(dict(schema=sc, via_update=via, focus=3, mask=G3, grid=3, cues=0x02, loops=0x80, wave=0))
            out.append(dict(schema=sc, via_update=via, focus=3, mask=0, grid=0, cues=0, loops=0, wave=0))
            if not Q:
                out.append(dict(schema=sc, via_update=via, focus=2, mask=0xAAAAAAAAAAAAAAA, grid=1 if gen == 2 else 2, cues=0xFF, loops=0xFF, wave=0))     # (1.x rejects a one-marker grid)
                out.append(dict(schema=sc, via_update=via, focus=3, mask=0x555555555555555 & G3, grid=5, cues=0x10, loops=0x01, wave=0))
        # group 1 (numeric sentinels: loudness, main cue, sample rate/count, duration, rating, bpm): 64 (2.x) / 160 (1.x) paths each
        if gen == 2 or not Q or sc == schemas[-1]:
            out.append(dict(schema=sc, via_update=0, focus=1, mask=ALL, grid=0, cues=0x01, loops=0, wave=0))
        if lite: continue
        # a waveform (resampled to 1024 entries by design: only the fixed point is asserted for it)
        out.append(dict(schema=sc, via_update=0, focus=3, mask=ALL, grid=0, cues=0, loops=0, wave=3))
    if not Q:
        out.append(dict(schema=schemas[-1], via_update=1, focus=1, mask=ALL, grid=0, cues=0x01, loops=0, wave=0))
    # sparse snapshots: exactly ONE optional field present (no grid, no cues, no loops), written by create and by update over a fully populated
    # stored snapshot (found with seeded change C01-3: the 1.x update path dropped the performance data row - and with it a lone main cue)
    STORED_FULL = ((1 << 20) - 1) << 23        # presence bits of the previously stored snapshot (the harness reads them from bit 23 on)
    for sc in ([schemas[-1]] if Q else [schemas[0], schemas[-1]]):
        for bit, focus in ((2, 1), (4, 1), (7, 1), (12, 1), (14, 1), (15, 1), (16, 1), (8, 3), (10, 3), (11, 3), (17, 3)):
            for via in (1, 0):
                if Q and via == 0 and bit not in (12, 15): continue
                out.append(dict(schema=sc, via_update=via, focus=focus, mask=(1 << bit) | STORED_FULL, grid=0, cues=0, loops=0, wave=0, sparse=1))
    for c in out: c['gen'] = gen; c.setdefault('sparse', 0)
    return out

def main():
    ck = Check('C01')
    ll = driver.compile_ir('h_track_v2.cpp'); driver.load_module(ll)
    eo = {'max_steps': 30000000, 'max_paths': 4000}
    jobs = [dict(harness='h_track_v2.cpp', ll=ll, entry='h_c01', params=p, models=['zlib_identity', 'kv_track_fast'], known=ck.known, must_reach=['compared', 'fixed-point'],
                 eng_opts=eo, replay='none', time_limit=1500, allow_throw='none') for p in configs(2)]
    ll1 = driver.compile_ir('h_track_v1.cpp'); driver.load_module(ll1)
    jobs += [dict(harness='h_track_v1.cpp', ll=ll1, entry='h_c01', params=p, models=['zlib_identity', 'kv_track_v1'], known=ck.known, must_reach=['compared', 'fixed-point'],
                  eng_opts=eo, replay='none', time_limit=1500, allow_throw='none') for p in configs(1)]
    if os.environ.get('VERIF_GEN'): jobs = [j for j in jobs if str(j['params']['gen']) == os.environ['VERIF_GEN']]
    jobs.sort(key=lambda j: -(j['params']['focus'] == 1))
    ck.add_results(run_jobs(jobs))
    ck.extra['bounds'] = {'schemas': 'schema 2.x only: one run per column-list range (2.18.0, 2.20.1, 2.21.2; thorough: all seven)', 'paths': '{create_track, update over a different stored snapshot}',
                          'snapshot': 'per run one group of fields is symbolic (numeric sentinels | cue and loop slots with labels/colours/offsets | strings, integers, key, time stamp, beat grid), the rest fixed; '
                                      'optional-presence masks; cue/loop slot patterns incl. slot 0 and 7; beat grids of 0..3 (5) markers; waveform of 3 entries (fixed point only)',
                          'outside': 'schema 1.x (the 1.x storage layer uses multi-table REPLACE/INSERT..SELECT statements that the key/value model does not cover); long strings, long grids/waveforms; '
                                     'bpm beyond 1024 (the stored integer copy is a double->int cast, C15)'}
    ck.assumptions = ['key/value sqlite3 model (C18 is the claim that the table layer stores rows faithfully)', 'identity zlib framing', 'Information table holds one row',
                      'normalisation oracle: harness/h_track_v2.cpp norm(), each line justified by the statement or a header comment']
    ck.trusted = ['clang-14 lowering', 'lsx executor', 'lsx/models_sqlite.py key/value model', 'z3 (+ integer encoding for unit conversions)']
    ck.finish()
if __name__ == '__main__': main()
