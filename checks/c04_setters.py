"""jobs of the setter half of C04 (harness/h_foreign_v2.cpp), used by checks/c04.py"""
import c01      # registers the key/value model sets
from lsx import driver
OPS = {0: 'set_loop_at', 1: 'set_hot_cue_at', 2: 'set_main_cue', 3: 'set_average_loudness', 4: 'set_key', 5: 'set_sample_rate', 6: 'set_sample_count', 7: 'set_title', 8: 'set_bpm'}
def jobs(ck, tier):
    ll = driver.compile_ir('h_foreign_v2.cpp'); driver.load_module(ll)
    out = []
    Q = tier == 'quick'
    for sc in ([6] if Q else [0, 3, 6]):
        for op, name in sorted(OPS.items()):
            shapes = [(10, 2, 1, 3)] if Q else [(10, 2, 1, 3), (9, 3, 0, 0), (3, 2, 2, 5)]        # (entries k1, adjusted-grid markers k2, label length ll, trailing bytes)
            for k1, k2, ll_, extra in shapes:
                for slot in ([0, 7] if op in (0, 1) and k1 > 7 else [0]):
                    p = dict(schema=sc, op=op, slot=slot, k1=k1, k2=k2, ll=ll_, extra=extra, gen=2)
                    out.append(dict(harness='h_foreign_v2.cpp', ll=ll, entry='h_c04_setter', params=p, models=['zlib_identity', 'kv_track_fast'], known=ck.known,
                                    must_reach=['foreign-stored', 'setter-ran', 'compared'], eng_opts={'max_steps': 30000000, 'max_paths': 4000}, replay='none', time_limit=900, allow_throw='none', label='setter:' + name))
    return out
