#!/usr/bin/env python3-vt
"""C07 - all crate queries describe one well-formed forest (see crates_common.py)."""
import sys, os
sys.path.insert(0, os.path.dirname(os.path.abspath(__file__)))
import crates_common
if __name__ == '__main__': crates_common.run('C07', r'C07', gens=(2, 1))
