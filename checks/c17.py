#!/usr/bin/env python3-vt
"""C17 - verify() reports every structural deviation from the schema.

The REAL verify() of each schema version (schema/schema_*.cpp + schema_validate_utils.hpp + sqlite_modern_cpp row extraction +
std::set ordering, all from clang's IR of /repo's working tree) is executed symbolically over a catalog model of the sqlite3 API
(checks/catalog.py).  The catalog answered is the one the real SQLite reports for a library that the library built from the
working tree has just created in that version, with AT MOST ONE structural deviation whose replacement value (new name, type,
default, nullability, key flag) is symbolic.  The deviation is chosen lazily at the first query it affects, so the prefix of
verify() is executed once and every deviation is one fork.  Asserted:
  V1  a deviated catalog is never accepted (solver: no replacement value != original lets verify() return)
  V2  the undeviated catalog is accepted (and a replacement value equal to the original is not rejected)
  V3  every enumerated deviation is offered on the undeviated path, i.e. verify() issues a query the deviation changes
      (a deviation that is never offered is one verify() cannot see: reported as a V1 violation for that deviation)
"""
import sys, os, json, time
sys.path.insert(0, os.path.dirname(os.path.abspath(__file__)))
import common, catalog
from common import Check, run_jobs, TIER
from lsx import driver, engine as E

CAT = {}          # schema enum -> catalog (filled in main before the pool forks)
NAMES = {}
def shard(devs, k, n): return [d for i, d in enumerate(devs) if i % n == k]
def make_install(enum, k, n, names_mode):
    def install(eng):
        cat = CAT[enum]
        devs = shard(catalog.enumerate_deviations(cat), k, n)
        eng._c17 = (cat, devs)
        catalog.install(eng, cat, devs, names_mode)
    return install
def on_end(eng, out, st):
    """V3 on the path without a deviation"""
    if out[0] != 'returned': return None          # (a path that ended undecided or in a bug is reported as such, not judged here)
    w, answered, offered = st.env.get('cat', (None, frozenset(), frozenset()))
    if w is not None: return None
    cat, devs = eng._c17
    missing = [d for d in devs if d not in offered]
    st.log.append(('reach', 'undeviated-path-ended'))
    if missing:
        eng.ensure_model(st)
        return ('bug', E.Bug('assert', 'V3/V1: verify() never reads anything that %d deviation(s) change, so it cannot report them, e.g. %s' % (len(missing), missing[:6]), st.model))
    return None
HOOKS = {'on_end': on_end}

def main():
    ck = Check('C17', level='model_checking')
    t0 = time.time()
    exe = catalog.build_tool()
    outdir = os.path.join(driver.BUILD, 'c17_libs')
    created = catalog.create_all(exe, outdir)
    supported = list(range(18))            # the 18 supported versions (enumerators 0..17); 18 = 3.0.0 is upstream work in progress
    # 3.0.0 (enumerator 18) is not among the 18 supported versions but the library can create and verify it: covered in the thorough tier when the library creates it
    if TIER == 'quick': todo = [0, 5, 10, 11, 17]      # oldest, 1.13.1 (the only version that declares columns without a type: seeded change C17-4), newest 1.x, oldest and newest 2.x
    else: todo = supported + ([18] if 18 in created else [])
    if os.environ.get('VERIF_C17_SCHEMAS'): todo = [int(x) for x in os.environ['VERIF_C17_SCHEMAS'].split(',')]       # development aid
    ck.extra['library_build_s'] = round(time.time() - t0, 1)
    for e in todo:
        if e not in created: ck.machinery.append('schema enumerator %d could not be created natively' % e); continue
        CAT[e] = catalog.read_catalog(os.path.join(outdir, str(e))); NAMES[e] = created[e]
    ll = driver.compile_ir('h_verify.cpp'); driver.load_module(ll)
    jobs = []; ndev = {}
    names_mode = 'last' if TIER == 'quick' else 'full'
    for e in sorted(CAT):
        devs = catalog.enumerate_deviations(CAT[e]); ndev[NAMES[e]] = len(devs)
        n = 4 if TIER == 'quick' else 8
        for k in range(n):
            mname = 'cat_%d_%d' % (e, k)
            common.register_models(mname, make_install(e, k, n, names_mode))
            jobs.append(dict(harness='h_verify.cpp', ll=ll, entry='h_verify', params={'schema_enum': e, 'shard': k}, models=[mname], known=ck.known,
                             must_reach=['accepted', 'rejected', 'deviation', 'no-deviation', 'undeviated-path-ended'], hooks=('c17', 'HOOKS'), replay='none', allow_throw='none',
                             eng_opts={'max_steps': 400000000, 'max_paths': 200000}, time_limit=900 if TIER == 'quick' else 3000, max_bugs=10, label=NAMES[e]))
    ck.add_results(run_jobs(jobs))
    kinds = {}
    for e in CAT:
        for d in catalog.enumerate_deviations(CAT[e]): kinds[d[0]] = kinds.get(d[0], 0) + 1
    ck.extra['bounds'] = {'schemas': [NAMES[e] for e in sorted(CAT)], 'deviations_enumerated_per_schema': ndev, 'deviations_by_kind': kinds,
                          'replacement_values': 'names: same length with the last character symbolic, or one symbolic character appended' + (', or all characters symbolic' if names_mode == 'full' else '') +
                                                '; types / defaults: every printable string of the same length, of length + 1, and the empty string / NULL; nullability and key flag: both values; extra objects: every 3-character name',
                          'outside': 'more than one deviation at a time; type changes of key columns and key-membership changes that would add or remove an automatic index (compound catalog change); index attributes (uniqueness, partial); '
                                     'columns of views; triggers; schema 3.0.0 in the quick tier (thorough: included); catalogs only a hand-edited sqlite_master could produce'}
    ck.assumptions = ['catalog model = the four catalog queries answered from the real SQLite\'s catalog of a natively created library, with one deviation applied consistently (checks/catalog.py)',
                      'deviation-free sqlite3 API otherwise (no statement fails)']
    ck.trusted = ['clang-14 lowering', 'lsx executor + std::set primitives model (lsx/models_rt.py: insert without rebalancing, increment, decrement)', 'lsx/models_sqlite.py', 'checks/catalog.py', 'python sqlite3 / system SQLite for the ground-truth catalog', 'z3']
    ck.finish()
if __name__ == '__main__': main()
