#!/usr/bin/env python3-vt
"""C08 - crate contents are exactly the tracks added and not removed (+ the entry-order clause of C09 for 2.x).
harness/h_members.h over the relational sqlite3 model (schema parsed from /repo's DDL): concrete prefixes that make track ids, crate ids and
membership-row ids diverge, then 1-2 operations with symbolic kind and operands (add, remove, clear, remove_track, remove_crate, create track,
create crate / sub-crate); crate.tracks() of every crate and containing_crates() of every track are compared with the reference relation
after every operation.  Sampled passing paths and every counterexample are replayed natively (built library, real SQLite)."""
import sys, os
sys.path.insert(0, os.path.dirname(os.path.abspath(__file__)))
import common, crates_common, rel_common
from common import Check, run_jobs, TIER
from lsx import driver
ADD, REMOVE, CLEAR, RM_TRACK, RM_CRATE, NEW_TRACK, NEW_ROOT, NEW_SUB = range(8)
def enc(ops, word=0):
    w = 0
    for i, (k, a, b) in enumerate(ops[4 * word:4 * word + 4]): w |= (k | (a << 4) | (b << 8)) << (16 * i)
    return w
SHAPES = {
    'diverge': [(NEW_ROOT, 0, 0), (NEW_SUB, 0, 0), (NEW_TRACK, 0, 0), (NEW_TRACK, 0, 0), (NEW_TRACK, 0, 0), (ADD, 1, 1), (ADD, 0, 1), (ADD, 0, 0)],
    'two-roots': [(NEW_ROOT, 0, 0), (NEW_ROOT, 0, 0), (NEW_TRACK, 0, 0), (NEW_TRACK, 0, 0), (ADD, 0, 0), (ADD, 1, 0), (ADD, 1, 1)],
    'after-removals': [(NEW_ROOT, 0, 0), (NEW_TRACK, 0, 0), (NEW_TRACK, 0, 0), (NEW_TRACK, 0, 0), (RM_TRACK, 0, 0), (ADD, 0, 2), (ADD, 0, 1)],
    'nested': [(NEW_ROOT, 0, 0), (NEW_SUB, 0, 0), (NEW_SUB, 1, 0), (NEW_TRACK, 0, 0), (NEW_TRACK, 0, 0), (ADD, 2, 0), (ADD, 0, 0), (ADD, 2, 1)],
    'crate-removed': [(NEW_ROOT, 0, 0), (NEW_SUB, 0, 0), (NEW_ROOT, 0, 0), (NEW_TRACK, 0, 0), (ADD, 1, 0), (RM_CRATE, 1, 0)],
    'parent-removed': [(NEW_ROOT, 0, 0), (NEW_SUB, 0, 0), (NEW_TRACK, 0, 0), (ADD, 1, 0), (RM_CRATE, 0, 0)],
    'small': [(NEW_ROOT, 0, 0), (NEW_TRACK, 0, 0), (NEW_TRACK, 0, 0), (ADD, 0, 1)],
}
def pre(shape): return dict(prefix=enc(SHAPES[shape]), prefix2=enc(SHAPES[shape], 1), npre=len(SHAPES[shape]), shape=shape)
HARNESS = {2: 'h_members_v2.cpp', 1: 'h_members_v1.cpp'}
def configs(gen):
    Q = TIER == 'quick'
    schemas = ([6, 0] if Q else list(range(7))) if gen == 2 else ([10, 0] if Q else list(range(11)))
    out = []
    for si, sc in enumerate(schemas):
        for sh in (['diverge', 'two-roots', 'after-removals', 'nested'] if (si == 0 or not Q) else ['diverge', 'nested']):
            out.append(dict(gen=gen, schema=sc, **pre(sh), nsym=1, kinds=255))
        if si == 0:
            out.append(dict(gen=gen, schema=sc, **pre('small'), nsym=2, kinds=255))
            out.append(dict(gen=gen, schema=sc, **pre('diverge'), nsym=2, kinds=0x1f))
            if not Q:
                out.append(dict(gen=gen, schema=sc, **pre('small'), nsym=3, kinds=0x3f))
                out.append(dict(gen=gen, schema=sc, **pre('nested'), nsym=2, kinds=0x1f))
    return out
def main(prop='C08', flt=r'C08', gens=(2,)):
    ck = Check(prop); ck.assert_filter = flt
    jobs = []; eo = {'max_steps': 80000000, 'max_paths': 8000}
    for gen in gens:
        ll = driver.compile_ir(HARNESS[gen]); driver.load_module(ll)
        ck.native_spec[HARNESS[gen]] = {'public': True}
        for p in configs(gen):
            jobs.append(dict(harness=HARNESS[gen], ll=ll, entry='h_members', params=dict(p), models=['zlib_identity', 'rel_g%d_s%d' % (gen, p['schema'])], known=ck.known,
                             must_reach=['prefix-built', 'checked'], eng_opts=eo, replay='native', time_limit=1500, allow_throw='none', nsamples=4, max_bugs=12, assert_filter=flt, label=p['shape']))
    if os.environ.get('VERIF_GEN'): jobs = [j for j in jobs if str(j['params']['gen']) == os.environ['VERIF_GEN']]
    jobs.sort(key=lambda j: -j['params']['nsym'])
    res = run_jobs(jobs); ck.add_results(res)
    crates_common.native_validate(ck, res)
    nst = 0
    for idx in ([6, 0] if TIER == 'quick' else range(7)):
        if 2 not in gens: break
        n, nseq, div = rel_common.validate(rel_common.ddl_for(2, idx), nseq=150 if TIER == 'quick' else 1500, seed=100 + idx)
        nst += n
        if div: ck.machinery.append('SQL-MODEL-VALIDATION divergence from the real SQLite (schema index %d): %s' % (idx, str(div)[:600]))
    if 1 in gens:
        for idx in ([10, 0] if TIER == 'quick' else [0, 1, 3, 7, 9, 10]):
            n, nseq, div = rel_common.validate_v1(rel_common.ddl_for(1, idx), nseq=80 if TIER == 'quick' else 600, seed=200 + idx)
            nst += n
            if div: ck.machinery.append('SQL-MODEL-VALIDATION divergence from the real SQLite (1.x schema index %d): %s' % (idx, str(div)[:600]))
    ck.extra['sql_model_validation'] = {'statements_compared_with_real_sqlite': nst}
    ck.extra['bounds'] = {'histories': 'prefix shapes (%s) of up to 3 crates and 3 tracks, then 1 symbolic operation of any of the 8 kinds on any operand (also removed ones); 2 symbolic operations from '
                                       'the small and the diverging prefix (thorough: 3 from the small one)' % ', '.join(sorted(SHAPES)),
                          'schemas': 'quick: newest and oldest 2.x version; thorough: every 2.x version',
                          'outside': 'longer histories, more than 4 crates / 4 tracks, tracks of other databases in a playlist, concurrent connections'}
    ck.assumptions = ['lsx/models_rel.py stands for SQLite (validated on every run against the real SQLite)', 'time stamps and the database uuid are fixed values',
                      'reference relation in harness/h_members.h written from the statement; an operation whose operands are all live must succeed; an operation on a removed crate or track may throw '
                      'or not but must leave the relation unchanged']
    ck.trusted = ['clang-14 lowering', 'lsx executor', 'lsx/models_rel.py', 'z3']
    ck.finish()
if __name__ == '__main__': main(gens=(2, 1))
