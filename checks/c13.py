#!/usr/bin/env python3-vt
"""C13 - schema and layout detection is exact.  Real detect_schema / detect_is_database2 / load_database /
v1::engine_storage(directory) over the abstract sqlite3 model: the stored (major, minor, patch) are three symbolic
32-bit integers, so each path of the nested switch carries a whole region of triples and z3 decides the decision table
for all of int32^3; table_info rows and file presence are forked over."""
import sys, os
sys.path.insert(0, os.path.dirname(os.path.abspath(__file__)))
import common
from common import Check, run_jobs, TIER
from lsx import driver, models_sqlite, engine as E
from lsx.ir import P, NULL
import z3

def install(eng):
    def column(st, s_, col, want):
        sql = s_.sql
        d = st.env.setdefault('c13', {})
        if 'COUNT(*)' in sql and 'sqlite_master' in sql:
            v = st.new_input('information_tables', 32, 'env'); d['tables'] = v
            return ('int', E.simp(z3.SignExt(32, v)))
        if 'schemaVersionMajor' in sql:
            # the triple the decision table is judged on is the one read FIRST (the music database / the only database); a second version query
            # (another attached file) gets its own independent answer, which must not influence the result
            k = ['maj', 'min', 'pat'][col]; nth = d.setdefault('vq', {}).setdefault(id(s_), len(d['vq']))
            v = st.new_input(['major', 'minor', 'patch'][col] + ('' if nth == 0 else '_q%d' % nth), 32, 'env')
            if nth == 0: d[k] = v
            return ('int', E.simp(z3.SignExt(32, v)))
        if sql.startswith('PRAGMA table_info'):
            if col == 1:
                k = eng.choose(st, 'colname', 2); name = [b'isExternalTrack', b'title'][k]
                d['cur_is_ext'] = (k == 0)
                return ('text', tuple(name))
            if col == 2:
                k = eng.choose(st, 'coltype', 4); t = [b'NUMERIC', b'INTEGER', b'TEXT', b''][k]
                if d.get('cur_is_ext'): d['numeric'] = 1 if k == 0 else 0
                return ('text', tuple(t))
            if col == 4: return ('text', tuple(b''))
            return ('int', 0)
        return None
    def rows(st, s_):
        d = st.env.setdefault('c13', {})
        if 'COUNT(*)' in s_.sql: return 1
        if 'schemaVersionMajor' in s_.sql:
            n = eng.choose(st, 'version_rows', 3); d['version_rows'] = n; return n
        return None
    def coltype(st, s_, col):
        if s_.sql.startswith('PRAGMA table_info') and col in (1, 2, 4): return 'text'
        return 'int'
    models_sqlite.install(eng, {'column': column, 'rows': rows, 'coltype': coltype, 'max_rows': 2})
    M = eng.models
    g = lambda st, k, dflt: st.env.get('c13', {}).get(k, dflt)
    M['verif_db_major'] = lambda st, a: g(st, 'maj', 0); M['verif_db_minor'] = lambda st, a: g(st, 'min', 0); M['verif_db_patch'] = lambda st, a: g(st, 'pat', 0)
    M['verif_db_info_tables'] = lambda st, a: g(st, 'tables', 0)
    M['verif_db_version_rows'] = lambda st, a: g(st, 'version_rows', 0)
    M['verif_db_ext_numeric'] = lambda st, a: g(st, 'numeric', 0)
    def m_stat(st, a):
        path = eng.read_cstr(st, a[0]).decode()
        fs = st.env.setdefault('fs', {})
        if path not in fs:
            fs[path] = eng.choose(st, 'exists:' + path, 2)
        return 0 if fs[path] else E.mask(-1, 32)
    M['stat'] = m_stat; M['stat64'] = m_stat; M['__xstat'] = lambda st, a: m_stat(st, a[1:])
    def m_fs(st, a):
        path = eng.read_cstr(st, a[0]).decode()
        return E.mask(st.env.get('fs', {}).get(path, -1), 32)
    M['verif_fs_exists'] = m_fs
    def m_dispatched(st, a):
        q = st.env.get('sq')
        if q is None: return 0
        legacy = any(e[0] == 'step' and e[2].upper().startswith('ATTACH') and any(b'dir/m.db' == bytes(v[1]) for v in e[3].values() if v[0] == 'text') for e in q.log)
        db2 = any(e[0] == 'open' and e[1] == 'dir/Database2/m.db' for e in q.log)
        return (1 if legacy else 0) | (2 if db2 else 0)
    M['verif_dispatched'] = m_dispatched
    # create_database replaced by a recorder (h_create_or_load, a C10 run): the call is counted, the schema it was asked for is kept and an empty
    # database object (null implementation pointer) is returned through the sret slot
    def m_create(st, a):
        d = st.env.setdefault('c13', {}); d['created'] = d.get('created', 0) + 1
        d['created_schema'] = eng.load(st, a[2], 4)
        eng.store(st, a[0], 8, 0); eng.store(st, P(a[0].obj, a[0].off + 8), 8, 0)
        return None
    eng.model_prefixes.append(('_ZN9djinterop6engine15create_databaseERK', m_create))
    M['verif_created'] = lambda st, a: g(st, 'created', 0)
    M['verif_created_schema'] = lambda st, a: g(st, 'created_schema', E.mask(-1, 32))
common.register_models('c13', install)

def main():
    ck = Check('C13')
    ll = driver.compile_ir('h_detect.cpp'); driver.load_module(ll)
    ck.native_spec = {}
    eo = {'max_steps': 3000000, 'max_paths': 40000}
    jobs = []
    for e, mr in (('h_detect_plain', ['detect-called', 'supported', 'unsupported']), ('h_detect_music', ['detect-called', 'supported', 'unsupported']),
                  ('h_layout', ['layout-called'])):
        jobs.append(dict(harness='h_detect.cpp', ll=ll, entry=e, params={}, models=['c13'], known=ck.known, must_reach=mr, eng_opts=eo, replay='none', max_bugs=12))
    for poison in (0, 1):
        jobs.append(dict(harness='h_detect.cpp', ll=ll, entry='h_load', params={'poison': poison}, models=['c13'], known=ck.known, must_reach=['load-called', 'loaded'], eng_opts=eo, replay='none', max_bugs=12))
    ck.add_results(run_jobs(jobs))
    ck.extra['bounds'] = {'version_triple': 'all of int32 x int32 x int32 (symbolic; the solver covers every unsupported neighbour, not a box)',
                          'information_rows': '0, 1 or 2 rows; COUNT(*) of Information tables any int32',
                          'table_info': '0..2 rows, column name in {isExternalTrack, title}, type in {NUMERIC, INTEGER, TEXT, ""}',
                          'file_system': 'every combination of existence of dir, dir/m.db, dir/Database2/m.db (and dir/p.db)',
                          'outside': 'SQLite itself; what the v1/v2 database implementations do after being handed the library (stubbed at their constructors)'}
    ck.assumptions = ['abstract sqlite3 model: a SELECT yields arbitrary rows of the requested column types', 'stat() answers per path, consistently within a run',
                      'reference decision table = the 18 supported versions of engine_schema.hpp (supported_schemas) with the documented 1.18.0 NUMERIC marker']
    ck.trusted = ['clang-14 lowering (one clang-compatibility rewrite of engine_storage(directory), see lsx/driver.py REPO_PATCHES)', 'lsx executor', 'lsx/models_sqlite.py', 'z3']
    ck.finish()
if __name__ == '__main__': main()
