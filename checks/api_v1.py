"""api_v1.py - schema-1.x jobs for C14 / C16 / C15 (same public operation table as 2.x, v1 implementation objects)."""
import common, api_common
from common import TIER
from lsx import driver
UB = ['undef', 'oob', 'ubsan', 'fpcast', 'null', 'overflow', 'uaf', 'shift', 'div0', 'unreachable', 'badfree', 'doublefree', 'terminate', 'trap', 'libassert']
common.register_models('abs_v1_one', lambda eng: api_common.install_abstract_v1(eng, rows_mode='one'))
common.register_models('abs_v1_any', lambda eng: api_common.install_abstract_v1(eng, rows_mode='any'))
common.register_models('abs_v1_fail', lambda eng: api_common.install_abstract_v1(eng, fail='one', rows_mode='one'))
common.register_models('abs_v1_failr', lambda eng: api_common.install_abstract_v1(eng, fail='one', rows_mode='one', fail_reads=True))
common.register_models('abs_v1_fail_any', lambda eng: api_common.install_abstract_v1(eng, fail='one', rows_mode='any'))
_LL = {}
def ll(defines=(), tag=''):
    k = (tuple(defines), tag)
    if k not in _LL:
        _LL[k] = driver.compile_ir('h_api_v1.cpp', defines=list(defines), tag=tag); driver.load_module(_LL[k])
    return _LL[k]
def schemas(): return [0, 3, 10] if TIER == 'quick' else [0, 1, 2, 3, 7, 9, 10]      # 1.6.0, (1.7.1, 1.9.1,) 1.11.1, (1.15.0, 1.18.0 desktop,) 1.18.0 os
def observer_names(): return ['v1 ' + v for v in api_common.OBSERVERS_V2.values()]
def mutator_names(): return ['v1 ' + v for v in api_common.MUTATORS_V2.values()]
common.register_models('abs_v1_text', lambda eng: api_common.install_abstract_v1(eng, rows_mode='one', sym_text=2))
def jobs_c16(ck):
    out = []
    for op, name in sorted(api_common.OBSERVERS_V2.items()):
        for sc in schemas():
            for mdl in ('abs_v1_one', 'abs_v1_any', 'abs_v1_text'):
                out.append(dict(harness='h_api_v1.cpp', ll=ll(), entry='h_op', params={'op': op, 'schema': sc, 'wide': 0, 'count': 3, 'gen': 1}, models=[mdl], known=ck.known, must_reach=['call'],
                                hooks=('c16', 'HOOKS'), replay='none', allow_throw='none', other_property_kinds=UB, eng_opts={'max_paths': 3000}, label='v1 ' + name))
    return out
def jobs_c14(ck):
    out = []
    for op, name in sorted(api_common.MUTATORS_V2.items()):
        for sc in ([10, 0] if TIER == 'quick' else schemas()):
            for mdl in ('abs_v1_fail', 'abs_v1_fail_any', 'abs_v1_failr'):
                if mdl == 'abs_v1_failr' and sc != 10 and TIER == 'quick': continue
                out.append(dict(harness='h_api_v1.cpp', ll=ll(), entry='h_op', params={'op': op, 'schema': sc, 'wide': 0, 'count': 3, 'gen': 1}, models=[mdl], known=ck.known, must_reach=['call'],
                                hooks=('c14', 'HOOKS'), replay='none', allow_throw='none', other_property_kinds=UB, eng_opts={'max_paths': 6000}, label='v1 ' + name, max_bugs=12))
    return out

common.register_models('abs_v1_any_conc', lambda eng: api_common.install_abstract_v1(eng, rows_mode='any', concrete_blobs=True))
common.register_models('abs_v1_one_sym', lambda eng: api_common.install_abstract_v1(eng, rows_mode='one', concrete_blobs=False))
def jobs_c15(ck):
    out = []
    allops = dict(api_common.OBSERVERS_V2); allops.update(api_common.MUTATORS_V2)
    L = ll(defines=['_GLIBCXX_ASSERTIONS'], tag='.assert')
    eo = {'max_paths': 6000, 'max_steps': 3000000}
    for op, name in sorted(allops.items()):
        for sc in ([10] if TIER == 'quick' else [0, 3, 10]):
            base = {'op': op, 'schema': sc, 'wide': 1, 'count': 9, 'gen': 1}
            out.append(dict(harness='h_api_v1.cpp', ll=L, entry='h_op', params=base, models=['abs_v1_any_conc'], known=ck.known, must_reach=['call'], replay='none', allow_throw='none',
                            eng_opts=eo, label='v1 ' + name, max_bugs=10))
            if op in (14, 19, 29, 21, 116, 3, 25, 26, 102, 15, 20):      # operations that interpret blob contents (symbolic contents)
                out.append(dict(harness='h_api_v1.cpp', ll=L, entry='h_op', params=base, models=['abs_v1_one_sym'], known=ck.known, must_reach=['call'], replay='none', allow_throw='none',
                                eng_opts=eo, label='v1 ' + name, max_bugs=10))
            if op in (111, 115):
                for cnt in (0, 8, 12):
                    out.append(dict(harness='h_api_v1.cpp', ll=L, entry='h_op', params=dict(base, count=cnt), models=['abs_v1_any_conc'], known=ck.known, must_reach=['call'], replay='none',
                                    allow_throw='none', eng_opts=eo, label='v1 ' + name, max_bugs=10))
    return out
