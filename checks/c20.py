#!/usr/bin/env python3-vt
"""C20 - beat-grid normalisation brackets the track and keeps its tempo.
lsx executes the real engine::normalize_beatgrid; queries are decided by z3 in an exact integer encoding of the
floating-point operations (lsx/bv2int.py, exact mode), valid on the exact-arithmetic domain the harness constructs."""
import sys, os, itertools
sys.path.insert(0, os.path.dirname(os.path.abspath(__file__)))
import common
from common import Check, run_jobs, TIER
from lsx import driver, bv2int

def install_exact(eng):
    eng.alt_solver = lambda pc, cond: bv2int.solve_exact(pc, cond, 60000, eng.stats, getattr(eng, 'cur_ranges', None))
    eng.alt_first = True; eng.alt_trust_sat = True; eng.inc_timeout_ms = 2000; eng.timeout_ms = 20000      # exact mode: sat answers are exact too
common.register_models('exact_fp', install_exact)

def main():
    ck = Check('C20')
    ll = driver.compile_ir('h_beatgrid.cpp'); driver.load_module(ll)
    ck.native_spec = {'h_beatgrid.cpp': {'extra_src': [], 'libs': ('-lsqlite3', '-lz')}}
    Q = TIER == 'quick'
    seg = [(1, 22050), (2, 20000), (1, 16), (16, 65536), (3, 441)] if Q else [(1, 22050), (2, 20000), (1, 16), (16, 65536), (3, 441), (4, 24000), (1, 65536), (7, 1000)]
    cfgs = []
    def cfg(n, segs, **kw):
        p = {'n': n, 'known1': 0, 'menu': 1, 'fix0': 0, 'idem': 0, 'conc': 0}
        for i, (d, s_) in enumerate(segs): p['d%d' % (i + 1)] = d; p['s%d' % (i + 1)] = s_
        p.update(kw); return p
    for a, b in itertools.product(seg, seg[:3] if Q else seg): cfgs.append(cfg(3, [a, b]))
    for a, b, c in ([(seg[0], seg[1], seg[0]), (seg[2], seg[3], seg[4]), (seg[1], seg[0], seg[3])] if Q else itertools.product(seg[:4], seg[:3], seg[:4])): cfgs.append(cfg(4, [a, b, c]))
    for i0 in ([-4, -3, 0, 7, 100] if Q else [-4, -3, -1, 0, 1, 7, 100, 4000]):
        for a in seg: cfgs.append(cfg(2, [a], fix0=1, i0=4096 + i0))
        cfgs.append(cfg(3, [seg[0], seg[1]], fix0=1, i0=4096 + i0))
        # surplus markers on BOTH sides of the track at once (>= 2 at or before 0 and >= 2 beyond the end) needs >= 4 markers and ends in a
        # two-marker result, which the symbolic-first-index runs exclude: covered here with a fixed first index (found with seeded change C20-2)
        cfgs.append(cfg(4, [seg[0], seg[1], seg[0]], fix0=1, i0=4096 + i0))
        cfgs.append(cfg(5, [seg[2], seg[0], seg[1]], fix0=1, i0=4096 + i0))
        if not Q: cfgs.append(cfg(4, [seg[4], seg[3], seg[2]], fix0=1, i0=4096 + i0)); cfgs.append(cfg(5, [seg[1], seg[4], seg[0]], fix0=1, i0=4096 + i0))
    jobs = [dict(harness='h_beatgrid.cpp', ll=ll, entry='h_norm_arith', params=p, models=['exact_fp'], known=ck.known, must_reach=['called']) for p in cfgs]
    jobs.append(dict(harness='h_beatgrid.cpp', ll=ll, entry='h_norm_trivial', params={}, models=['exact_fp'], known=ck.known, must_reach=['called']))
    # listed known finding: demonstrated on the region the main runs exclude
    # (concrete inputs: grid {(-5,-30),(-4,1)} with 2 samples, and {(-10,-100),(-6,88100)} with 44100 samples)
    for i0, a, o0, N in ((-5, (1, 31), -30, 2), (-10, (4, 22050), -100, 44100)):
        jobs.append(dict(harness='h_beatgrid.cpp', ll=ll, entry='h_norm_known1', params=cfg(2, [a], fix0=1, i0=4096 + i0, known1=1, conc=1, o0=(1 << 24) + o0, N=N), models=['exact_fp'], known=ck.known))
    rs = run_jobs(jobs)
    ck.add_results(rs)
    if not ck.reach_summary().get('normalised'): ck.machinery.append('vacuity guard: no path normalised a grid')
    ck.extra['bounds'] = {'grid_length': '0, 1 (trivial cases) and 2..5 markers%s' % ('' if Q else ' (thorough: same, larger tempo menu)'),
                          'symbolic': 'sample count in [1, 2^24], first offset in [-2^24, 2^24], first index in [-4096, 4096] (or a run parameter for two-marker results)',
                          'menu': 'per-segment (index step, samples per beat) from %r' % (seg,),
                          'outside': 'non-integer offsets / tempi (the bracket, tempo and idempotence clauses do not hold for all doubles under IEEE rounding; the statement says "up to floating-point rounding"); '
                                     'grids longer than 4; extreme values for which the int32 beat index arithmetic overflows'}
    ck.assumptions = ['exact-arithmetic domain: integer-valued offsets and integer samples-per-beat below 2^53, on which every FP operation of the function is exact; the encoding proves integrality and magnitude by interval arithmetic and refuses anything else',
                      'lemma: for integers a, b with |a| < 2^52, ceil(RNE(a/b)) == ceil(a/b) (lsx/bv2int.py docstring)',
                      'idempotence is implied by S3 + A1 + A2 on this domain and is not re-executed symbolically',
                      'sign of zero is not distinguished in the exact encoding']
    ck.trusted = ['clang-14 lowering', 'lsx executor', 'lsx/bv2int.py exact mode', 'z3 (linear integer arithmetic)']
    ck.finish()
if __name__ == '__main__': main()
