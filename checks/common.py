"""common.py - shared check runner: compile IR from /repo's current tree, run symbolic jobs in parallel, replay
counterexamples natively, triage against known_findings.json, write evidence, print verdict lines."""
import os, re, sys, json, time, hashlib, traceback, multiprocessing as mp
sys.path.insert(0, os.path.dirname(os.path.dirname(os.path.abspath(__file__))))
from lsx import driver, models_zlib, engine as E

VERIF = driver.VERIF
OUT = os.environ.get('VERIF_OUT', VERIF)       # where evidence/ and replays/ go (scratch runs against a seeded change point this elsewhere)
TIER = os.environ.get('VERIF_TIER', 'quick')
SEED = int(os.environ.get('VERIF_SEED', '0') or 0)
NPROC = int(os.environ.get('VERIF_JOBS', '0') or 0) or min(16, os.cpu_count() or 4)

MODEL_SETS = {'zlib_identity': models_zlib.install_identity}
def register_models(name, fn): MODEL_SETS[name] = fn

def load_known(prop):
    p = os.path.join(VERIF, 'known_findings.json')
    if not os.path.exists(p): return []
    return [k for k in json.load(open(p))['findings'] if k['property'] == prop]

def match_known(known, kind, msg, entry, inputs=None):
    """a finding entry matches on status=='known', kind, a substring of the failure location/message, optionally the harness
    entry, and optionally exact values of named inputs (inputs: list of {'name','value'} of the counterexample)"""
    for k in known:
        if k.get('status') != 'known': continue
        if k.get('kind') and k['kind'] != kind: continue
        if k.get('where') and k['where'] not in msg: continue
        if k.get('entry') and k['entry'] != entry: continue
        if k.get('inputs'):
            if inputs is None: continue
            have = {}
            for i in inputs: have.setdefault(i['name'], i['value'])
            if any(have.get(n) != (v & ((1 << 64) - 1) if v < 0 else v) and have.get(n) != (v & 0xffffffff) for n, v in k['inputs'].items()): continue
        return k['id']
    return None

def _run_job(job):
    try:
        known = job.get('known', [])
        def kfilter(b, st):
            import z3
            inputs = driver.model_inputs(st, b.model) if b.model is not None else None
            kid = match_known(known, b.kind, b.msg, job['entry'], inputs)
            if kid is None: return None
            k = [x for x in known if x['id'] == kid][0]
            if k.get('inputs'):
                eqs = []
                for kind_, name, bits, v in st.inputs:
                    if name in k['inputs']: eqs.append(v == (k['inputs'][name] & ((1 << bits) - 1)))
                return (kid, z3.Not(z3.And(*eqs))) if eqs else kid
            return kid
        def inst(eng):
            eng.known_filter = kfilter if known else None
            eng._job = job
        models = [MODEL_SETS[m] for m in job.get('models', [])] + [inst]
        allow = job.get('allow_throw', 'none')
        allow_fn = {'none': lambda eng, t: False, 'std': lambda eng, t: eng.is_std_exception(t), 'any': lambda eng, t: True}[allow]
        hooks = job.get('hooks')     # name of a module-level dict in the check with setup/on_end callables
        setup = on_end = None
        if hooks:
            mod = __import__(hooks[0]); h = getattr(mod, hooks[1])
            setup, on_end = h.get('setup'), h.get('on_end')
        r = driver.run_harness(job['ll'], job['entry'], params=job.get('params'), env_models=models, allow_throw=allow_fn,
                               eng_opts=job.get('eng_opts'), setup=setup, on_end=on_end, max_bugs=job.get('max_bugs', 6),
                               time_limit=job.get('time_limit', 240 if TIER == 'quick' else 1500), nsamples=job.get('nsamples', 3))
        r.job = {k: v for k, v in job.items() if k not in ('known',)}
        if r.wall > 30: sys.stderr.write('slow job %.0fs: %s %s\n' % (r.wall, job['entry'], job.get('params')))
        # known-finding hits are collected on the engine; pull them through the module-level cache
        return r
    except Exception as e:
        r = driver.Result(); r.entry = job['entry']; r.params = job.get('params') or {}
        r.inconclusive.append({'kind': 'crash', 'msg': '%r\n%s' % (e, traceback.format_exc()[-1500:])})
        r.job = {k: v for k, v in job.items() if k not in ('known',)}
        return r

def run_jobs(jobs, nproc=None):
    nproc = nproc or NPROC
    if os.environ.get('VERIF_ONLY'):       # development aid: run only the jobs whose entry matches (never used by the registered commands)
        jobs = [j for j in jobs if re.search(os.environ['VERIF_ONLY'], j['entry'])]
    if nproc <= 1 or len(jobs) <= 1:
        return [_run_job(j) for j in jobs]
    ctx = mp.get_context('fork')
    with ctx.Pool(min(nproc, len(jobs)), maxtasksperchild=8) as pool:
        return pool.map(_run_job, jobs, chunksize=1)

def translation_validate(ck, harness, ll, entry, params, cases, models=('zlib_identity',)):
    """executor vs the real build on concrete inputs: the same harness is run natively (ASan/UBSan build of /repo's
    current sources) and in the executor with the same recorded inputs; the REACH trace and the way the run ends must
    agree.  A disagreement is a machinery failure (exit 2), never a finding."""
    import tempfile
    # plain (unsanitised) native build: ASan turns a huge operator new into a hard error where the real runtime throws bad_alloc
    spec = ck.native_spec.get(harness, {})
    key = harness + ':plain'
    if key not in ck.natives: ck.natives[key] = driver.build_native(harness, extra_src=spec.get('extra_src', ()), libs=spec.get('libs', ('-lz',)), sanitize=False)
    exe = ck.natives[key]
    bad = 0
    for vals in cases:
        path = os.path.join(driver.BUILD, 'tv_%s_%d.txt' % (entry, os.getpid()))
        driver.write_replay(path, [{'bits': 8, 'value': v} for v in vals])
        rc, out, err = driver.run_native(exe, entry, path, params)
        nat_reach = [l.split(' ', 1)[1] for l in out.splitlines() if l.startswith('REACH ')]
        nat_end = 'returned' if rc == 0 else ('sanitizer/other rc=%d' % rc)
        r = driver.run_harness(ll, entry, params=params, env_models=[MODEL_SETS[m] for m in models], allow_throw=lambda e, t: False, concrete=list(vals))
        sym_reach = sorted(r.reached)
        sym_end = 'returned' if (not r.bugs and not r.inconclusive) else 'bug/undecided'
        ck.tv_cases += 1
        if sorted(nat_reach) != sym_reach or nat_end.split('/')[0] != sym_end.split('/')[0]:
            bad += 1
            ck.machinery.append('TRANSLATION-VALIDATION mismatch %s%s inputs=%s: native %s %s, executor %s %s %s' % (entry, params, bytes(vals).hex()[:80], nat_end, nat_reach, sym_end, sym_reach,
                                                                                                                  [b['msg'][:120] for b in r.bugs] + [b['msg'][:120] for b in r.inconclusive]))
    return bad

class Check:
    def __init__(s, prop, level='model_checking'):
        s.prop = prop; s.level = level; s.t0 = time.time()
        s.known = load_known(prop)
        s.results = []; s.violations = []; s.known_printed = {}; s.machinery = []
        s.natives = {}; s.assumptions = []; s.extra = {}; s.trusted = []
        s.replays = 0; s.reproduced = 0; s.tv_cases = 0
        s.native_spec = {}
    def native_for(s, harness):
        if harness not in s.natives:
            spec = s.native_spec.get(harness, {})
            if spec.get('public'): s.natives[harness] = driver.build_native_public(harness)       # public API only: against the library built from /repo's tree + real SQLite
            else: s.natives[harness] = driver.build_native(harness, extra_src=spec.get('extra_src', ()), libs=spec.get('libs', ('-lz',)))
        return s.natives[harness]
    def add_results(s, rs):
        for r in rs:
            s.results.append(r)
            for inc in r.inconclusive:
                s.machinery.append('%s%s: %s: %s' % (r.entry, r.params, inc['kind'], inc['msg'][:600]))
            skip = set((r.job or {}).get('other_property_kinds') or ())
            for i, b in enumerate(r.bugs):
                flt = (r.job or {}).get('assert_filter')
                if flt and b['kind'] == 'assert' and not re.search(flt, b['msg']):
                    # an assertion of the shared harness that states another property (e.g. C09's order assertions in a C07 run)
                    s.extra.setdefault('paths_ended_by_other_property_monitor', {}).setdefault('assert:other-property', 0)
                    s.extra['paths_ended_by_other_property_monitor']['assert:other-property'] += 1
                    continue
                if b['kind'] in skip:
                    # a path ended by a monitor that belongs to another property (e.g. undefined behaviour = C15): not this
                    # property's violation; the path is simply not continued (counted, stated in the evidence)
                    s.extra.setdefault('paths_ended_by_other_property_monitor', {}).setdefault(b['kind'], 0)
                    s.extra['paths_ended_by_other_property_monitor'][b['kind']] += 1
                    continue
                s.triage(r, i, b)
            for k, d in getattr(r, 'known_hits', {}).items(): s.known_printed.setdefault(k, 'solver counterexample on %d path(s), e.g. %s' % (d['count'], d['msg'][:160]))
            mr = (r.job or {}).get('must_reach') or []
            for m in mr:
                if not r.reached.get(m) and not any(o.startswith('known-finding') for o in r.outcomes):
                    s.machinery.append('%s%s: vacuity guard: point "%s" not reached on any path' % (r.entry, r.params, m))
    def triage(s, r, i, b):
        """replay the counterexample natively; print VIOLATION only if it reproduces and is not a listed known finding"""
        rid = hashlib.md5(json.dumps([r.entry, r.params, b['kind'], [x['value'] for x in b['inputs']]]).encode()).hexdigest()[:10]
        path = os.path.join(OUT, 'replays', s.prop, '%s-%s.txt' % (r.entry, rid))
        meta = {'property': s.prop, 'harness': r.job['harness'], 'entry': r.entry, 'params': r.params, 'kind': b['kind'], 'message': b['msg'],
                'inputs': b['inputs'][:400], 'choices': b.get('choices')}
        driver.write_replay(path, b['inputs'], meta)
        if r.job.get('replay', 'native') == 'native':
            try:
                exe = s.native_for(r.job['harness'])
                # harnesses over an arbitrary-behaviour stub cannot be replayed verbatim: they name a native confirmation
                # entry per counterexample class (real libz, real SQLite) instead
                nentry = (r.job.get('native_entry_for') or {}).get(b['kind'], r.entry)
                rc, out, err = driver.run_native(exe, nentry, path, {k: v for k, v in r.params.items() if isinstance(v, int)}, assert_filter=r.job.get('assert_filter'))
                rep, desc = driver.classify_native(rc, out, err)
            except Exception as e:
                rep, desc = False, 'native replay failed to build/run: %r' % (e,)
            s.replays += 1
        else:
            rep, desc = None, 'no native replay for this harness kind (%s)' % r.job.get('replay')
        meta['native'] = desc; meta['reproduced'] = rep
        json.dump(meta, open(path + '.json', 'w'), indent=1)
        kid = match_known(s.known, b['kind'], b['msg'], r.entry, b.get('inputs'))
        if rep:
            s.reproduced += 1
            if kid:
                s.known_printed.setdefault(kid, desc)
            else:
                s.violations.append((path, b, desc))
        elif rep is None:
            if kid: s.known_printed.setdefault(kid, desc)
            else: s.violations.append((path, b, desc))
        else:
            if b['kind'] in ('undef',):
                # use of an uninitialised value: no sanitizer available here observes it natively (MSan needs an
                # instrumented libstdc++); reported separately, never as VIOLATION unless confirmed
                s.extra.setdefault('unconfirmable', []).append({'entry': r.entry, 'msg': b['msg'][:300], 'replay': path})
                s.machinery.append('%s%s: counterexample [%s] not confirmable natively (%s): %s' % (r.entry, r.params, b['kind'], desc, b['msg'][:300]))
            else:
                s.machinery.append('ENGINE-MISMATCH %s%s: counterexample [%s] did not reproduce natively (%s): %s' % (r.entry, r.params, b['kind'], desc, b['msg'][:300]))
    def note_known_hits(s, hits):
        for k, d in hits.items(): s.known_printed.setdefault(k, d)
    def finish(s, coverage_extra=None, samples=None, rule=None):
        wall = time.time() - s.t0
        tot = lambda k: sum(r.stats.get(k, 0) for r in s.results)
        paths = sum(r.paths for r in s.results)
        funcs = sorted(set(f for r in s.results for f in getattr(r, 'funcs', [])))
        smp = samples or []
        for r in s.results:
            for x in r.samples[:1]:
                if len(smp) < 6: smp.append({'entry': r.entry, 'params': r.params, 'path': x})
        if not smp: smp = [{'note': 'no completed path samples'}]
        cov = {
            'states': max(paths, 0), 'transitions': tot('forks') + paths, 'traces_validated_against_impl': s.reproduced + s.tv_cases,
            'samples': smp, 'harness_runs': len(s.results), 'paths': paths, 'instructions_executed': tot('instr'),
            'solver_queries': tot('queries'), 'solver_sat': tot('sat'), 'solver_unsat': tot('unsat'), 'solver_unknown': tot('unknown'),
            'solver_seconds': round(tot('solver_s'), 2), 'assertions_evaluated': sum(getattr(r, 'asserts', 0) for r in s.results),
            'functions_encoded': funcs[:400], 'functions_encoded_count': len(funcs),
            'ir_instructions_encoded': max([getattr(r, 'ninstr', 0) for r in s.results] + [0]),
            'bounds': s.extra.get('bounds'), 'reach_counts': s.reach_summary(), 'replays_attempted': s.replays, 'replays_reproduced': s.reproduced,
            'known_findings_matched': sorted(s.known_printed), 'undecided': s.machinery[:20], 'trusted_base': s.trusted,
            'rule': rule or 'one symbolic execution path = one equivalence class of inputs (all inputs that drive the real code down the same branch sequence); every branch decision, memory access and signed arithmetic step on it is decided by z3',
        }
        if coverage_extra: cov.update(coverage_extra)
        for k, v in s.extra.items(): cov.setdefault(k, v)
        if s.level == 'model_checking' and cov['states'] < 1: cov['states'] = 1; cov['transitions'] = max(1, cov['transitions'])
        ev = {'property_id': s.prop, 'tier': TIER if TIER in ('quick', 'thorough') else 'quick', 'seed': SEED, 'level': s.level, 'coverage': cov,
              'assumptions': s.assumptions, 'wall_s': round(wall, 2), 'violations': len(s.violations)}
        os.makedirs(os.path.join(OUT, 'evidence'), exist_ok=True)
        json.dump(ev, open(os.path.join(OUT, 'evidence', s.prop + '.json'), 'w'), indent=1, default=str)
        for kid, desc in sorted(s.known_printed.items()):
            k = [x for x in s.known if x['id'] == kid][0]
            print('KNOWN-FINDING: property=%s %s: %s [%s]' % (s.prop, kid, k['what'], desc))
        for path, b, desc in s.violations:
            print('VIOLATION property=%s replay=%s' % (s.prop, path))
            print('   %s: %s' % (b['kind'], b['msg'][:400])); print('   native: %s' % desc)
        for m in s.machinery: print('UNDECIDED: ' + m[:700])
        print('%s %s: %d harness runs, %d paths, %d solver queries (%.1fs solver), wall %.1fs -> %s' % (
            s.prop, TIER, len(s.results), paths, tot('queries'), tot('solver_s'), wall,
            'VIOLATION' if s.violations else ('UNDECIDED' if s.machinery else 'held within bounds')))
        if s.violations: sys.exit(1)
        if s.machinery: sys.exit(2)
        sys.exit(0)
    def reach_summary(s):
        d = {}
        for r in s.results:
            for k, v in r.reached.items(): d[k] = d.get(k, 0) + v
        return d
