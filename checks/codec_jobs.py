"""codec_jobs.py - parameter grids shared by C02/C03 (structured values) for the 11 codecs."""
from common import TIER
Q = TIER == 'quick'
NATIVE = {'h_codec_v2.cpp': {'extra_src': ['src/djinterop/engine/encode_decode_utils.cpp']},
          'h_codec_v1.cpp': {'extra_src': ['src/djinterop/engine/encode_decode_utils.cpp']},
          'h_dec_v2.cpp': {'extra_src': ['src/djinterop/engine/encode_decode_utils.cpp']},
          'h_dec_v1.cpp': {'extra_src': ['src/djinterop/engine/encode_decode_utils.cpp']}}

def v2_grid(long_labels=True):
    """(blob kind, params) for the five 2.x codecs"""
    g = []
    ks = [0, 1, 2, 3] if Q else [0, 1, 2, 3, 4, 5]
    for k1 in ks:
        for k2 in ks[:3]:
            for ex in ([0, 2] if Q else [0, 1, 9]): g.append(('beat_data', {'k1': k1, 'k2': k2, 'extra': ex}))
    cs = [0, 1, 2, 3, 8, 9] if Q else list(range(0, 13))
    for kind in ('quick_cues', 'loops'):
        for k in cs:
            for ll in ([0, 1, 3] if Q else [0, 1, 2, 3, 7, 40]):
                for ex in ([0, 2] if Q else [0, 1, 5]): g.append((kind, {'k1': k, 'll': ll, 'extra': ex}))
        if long_labels:
            for ll in ([255, 256, 300] if Q else [127, 128, 254, 255, 256, 257, 300]):
                for k in (1, 2): g.append((kind, {'k1': k, 'll': ll, 'extra': 0}))
    for k in ([0, 1, 2, 3] if Q else [0, 1, 2, 3, 8, 1024, 1025]):
        for ex in ([0, 1] if Q else [0, 1, 4]): g.append(('overview', {'k1': k, 'extra': ex}))
    for ex in [0, 1, 2] if Q else [0, 1, 2, 16]: g.append(('track_data', {'extra': ex}))
    return g

def v1_grid(long_labels=True, near=0):
    g = []
    ks = [0, 2, 3] if Q else [0, 2, 3, 4, 5]
    for k1 in ks:
        for k2 in ks[:2] if Q else ks[:3]: g.append(('beat_data', {'k1': k1, 'k2': k2, 'near': near}))
    for k in ([0, 1, 2, 3] if Q else [0, 1, 2, 3, 8, 128]):
        g.append(('high_res', {'k1': k})); g.append(('overview', {'k1': k}))
    masks = [0x00, 0xFF, 0xA5, 0x01, 0x80] if Q else [0x00, 0xFF, 0xA5, 0x5A, 0x01, 0x80, 0x3C, 0x81]
    for kind in ('quick_cues', 'loops'):
        for m in masks:
            for ll in ([1, 3] if Q else [1, 2, 3, 7, 40]): g.append((kind, {'k1': 8, 'll': ll, 'mask': m}))
        for k in ([0, 1, 7, 9] if Q else [0, 1, 2, 7, 9, 10, 12]):
            g.append((kind, {'k1': k, 'll': 1, 'mask': (1 << k) - 1})); g.append((kind, {'k1': k, 'll': 1, 'mask': 0}))
        g.append((kind, {'k1': 8, 'll': 0, 'mask': 0x01}))       # empty label: must be rejected, not mis-encoded
        if long_labels:
            for ll in ([255, 256, 300] if Q else [127, 128, 254, 255, 256, 257, 300]): g.append((kind, {'k1': 8, 'll': ll, 'mask': 0x01}))
    g.append(('track_data', {}))
    return g
