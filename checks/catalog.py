"""catalog.py - the catalog side of SQLite for C17 (and C16's verify() observer): what `sqlite_master`, `PRAGMA table_info`,
`PRAGMA index_list` and `PRAGMA index_info` answer.

Ground truth = the catalogs that the REAL SQLite reports for a library created by the library built from /repo's working tree
(harness/native_catalog.cpp `create`, one directory per engine_schema enumerator; read here with python's sqlite3).
A *world* is that catalog with at most one structural deviation applied consistently to every query it touches
(dropping a column also drops the indices that mention it, renaming a table empties its table_info, ...).  The replaced
names / types / defaults / flags are SYMBOLIC values (bytes, ints) constrained only to what SQLite can produce, so one
path of the executor stands for every replacement value; the solver decides whether verify() can accept any of them.

Deviation kinds (the property's list: missing / extra / renamed table, view, column, index; column type, nullability,
default, key membership):
  drop_table rename_table extra_table drop_view rename_view extra_view
  drop_col rename_col extra_col col_type col_notnull col_dflt col_pk
  drop_index rename_index extra_index index_col
"""
import os, re, sqlite3, subprocess, shutil, tempfile, z3
from lsx import driver, models_sqlite, engine as E

# ------------------------------------------------------------------------------------------------ ground truth
def build_tool():
    lib = driver.build_native_lib()
    exe = os.path.join(driver.BUILD, 'native_catalog')
    r = subprocess.run(['g++', '-std=c++17', '-O1', '-I' + os.path.join(driver.REPO, 'include'), '-I' + os.path.join(lib, 'include'),
                        os.path.join(driver.VERIF, 'harness', 'native_catalog.cpp'), '-o', exe, '-L' + lib, '-ldjinterop', '-Wl,-rpath,' + lib], capture_output=True, text=True)
    if r.returncode: raise RuntimeError('native_catalog build failed:\n' + r.stderr[-3000:])
    return exe

def create_all(exe, outdir):
    shutil.rmtree(outdir, ignore_errors=True); os.makedirs(outdir)
    r = subprocess.run([exe, 'create', outdir], capture_output=True, text=True, timeout=300)
    created = {}
    for l in r.stdout.splitlines():
        w = l.split(' ', 2)
        if w[0] == 'CREATED': created[int(w[1])] = w[2]
    return created

def db_files(dirn):
    """{db_name as verify() addresses it: file}"""
    if os.path.exists(os.path.join(dirn, 'Database2', 'm.db')): return {'': os.path.join(dirn, 'Database2', 'm.db')}
    return {'music': os.path.join(dirn, 'm.db'), 'perfdata': os.path.join(dirn, 'p.db')}

def read_catalog(dirn):
    """{(db, 'master', type): [(name, tbl_name)], (db,'table_info',T): [(cid,name,type,notnull,dflt,pk)], (db,'index_list',T): [(seq,name,unique,origin,partial)],
        (db,'index_info',I): [(seqno,cid,name)], (db,'sql',name): create statement}"""
    cat = {}
    for db, f in db_files(dirn).items():
        c = sqlite3.connect('file:%s?mode=ro' % f, uri=True)
        for typ in ('table', 'view', 'index', 'trigger'):
            cat[(db, 'master', typ)] = [tuple(r) for r in c.execute("SELECT name, tbl_name FROM sqlite_master WHERE type = ?", (typ,))]
        for name, sql in c.execute("SELECT name, sql FROM sqlite_master"): cat[(db, 'sql', name)] = sql
        for typ in ('table', 'view'):
            for name, _ in cat[(db, 'master', typ)]:
                cat[(db, 'table_info', name)] = [tuple(r) for r in c.execute("PRAGMA table_info('%s')" % name)]
                cat[(db, 'index_list', name)] = [tuple(r) for r in c.execute("PRAGMA index_list('%s')" % name)]
                for il in cat[(db, 'index_list', name)]:
                    cat[(db, 'index_info', il[1])] = [tuple(r) for r in c.execute("PRAGMA index_info('%s')" % il[1])]
        c.close()
    return cat

# ------------------------------------------------------------------------------------------------ queries
Q_MASTER = re.compile(r"^SELECT name, tbl_name FROM (?:(\w+)\.)?sqlite_master WHERE type = (?:'(\w+)'|\?)$")
Q_PRAGMA = re.compile(r"^PRAGMA (?:(\w+)\.)?(table_info|index_list|index_info)\('([^']*)'\)$")
# the table-valued form: SELECT <columns> FROM [db.]pragma_table_info(?[, ?]).  SQLite IGNORES a schema prefix on a table-valued pragma function
# (checked against the real SQLite 3.40: music.pragma_table_info('Information') and perfdata.pragma_table_info('Information') both answer for
# the first attached database that has the object); the schema is the optional second argument.
Q_TVF = re.compile(r"^SELECT (.+?) FROM (?:(\w+)\.)?pragma_(table_info|index_list|index_info)\(\s*(\?|'[^']*')\s*(?:,\s*(\?|'[^']*')\s*)?\)$")
TVF_COLS = {'table_info': ['cid', 'name', 'type', 'notnull', 'dflt_value', 'pk'], 'index_list': ['seq', 'name', 'unique', 'origin', 'partial'], 'index_info': ['seqno', 'cid', 'name']}
def _bind_text(binds, idx):
    v = binds.get(idx)
    if v is None or v[0] != 'text' or any(b.__class__ is not int for b in v[1]): raise E.Inconclusive('sqlmodel', 'catalog query with a non-text or symbolic bound parameter')
    return bytes(v[1]).decode()
def resolve_db(cat, kind, name, w):
    """unqualified lookup: main, then the attached databases in the order the library attaches them (music, perfdata)"""
    dbs = sorted(set(k[0] for k in cat), key=lambda d: {'': 0, 'music': 1, 'perfdata': 2}.get(d, 9))
    for db in dbs:
        if kind == 'index_info': names = [r[0] for r in cat[(db, 'master', 'index')]]
        else: names = [r[0] for r in cat[(db, 'master', 'table')] + cat[(db, 'master', 'view')]]
        if w is not None and w.dev is not None and w.dev[1] == db:
            dk, _, obj, sub = w.dev
            if dk in ('drop_table', 'rename_table', 'drop_view', 'rename_view') and kind != 'index_info': names = [n for n in names if n != obj]
            if dk in ('drop_index', 'rename_index') and kind == 'index_info': names = [n for n in names if n != sub]
        if name in names: return db
    return dbs[0]
def parse_query(sql, binds=None, cat=None, w=None):
    """-> (query key (db, kind, name), projection or None)"""
    sql = ' '.join(sql.split())
    m = Q_MASTER.match(sql)
    if m: return (m.group(1) or '', 'master', m.group(2) or _bind_text(binds or {}, 1)), None
    m = Q_PRAGMA.match(sql)
    if m: return (m.group(1) or '', m.group(2), m.group(3)), None
    m = Q_TVF.match(sql)
    if m:
        cols, _ignored_prefix, kind, a1, a2 = m.groups()
        nb = 0
        def arg(a):
            nonlocal nb
            if a == '?': nb += 1; return _bind_text(binds or {}, nb)
            return a[1:-1]
        name = arg(a1); schema = arg(a2) if a2 is not None else None
        db = schema if schema is not None else resolve_db(cat, kind, name, w)
        if db == 'main': db = ''
        want = [c.strip().strip('"[]`') for c in cols.split(',')]
        if want == ['*']: proj = None
        else:
            if any(c not in TVF_COLS[kind] for c in want): raise E.Inconclusive('sqlmodel', 'unknown column in ' + sql[:100])
            proj = [TVF_COLS[kind].index(c) for c in want]
        return (db, kind, name), proj
    return None, None

# ------------------------------------------------------------------------------------------------ deviations
def enumerate_deviations(cat, kinds=None):
    """every single deviation of the catalog, as a tuple (kind, db, object, sub) - the symbolic replacement value is chosen later"""
    out = []
    dbs = sorted(set(k[0] for k in cat))
    for db in dbs:
        tables = [n for n, _ in cat[(db, 'master', 'table')]]
        views = [n for n, _ in cat[(db, 'master', 'view')]]
        for t in tables:
            if t.startswith('sqlite_'): continue
            out.append(('drop_table', db, t, None)); out.append(('rename_table', db, t, None))
            cols = cat[(db, 'table_info', t)]; il = cat[(db, 'index_list', t)]
            sql = cat.get((db, 'sql', t)) or ''
            autoinc = 'AUTOINCREMENT' in sql.upper()
            pkcols = [c for c in cols if c[5]]
            for c in cols:
                name = c[1]
                if len(cols) > 1 and not c[5]: out.append(('drop_col', db, t, name))
                out.append(('rename_col', db, t, name))
                if not c[5]: out.append(('col_type', db, t, name))            # the type of a key column decides whether SQLite adds an automatic index: outside (stated)
                out.append(('col_notnull', db, t, name)); out.append(('col_dflt', db, t, name))
                # key membership: only the changes that leave every other catalog row as it is (INTEGER rowid alias <-> plain column, no AUTOINCREMENT)
                if not autoinc and c[2].upper() == 'INTEGER' and ((len(pkcols) == 1 and c[5] == 1) or (not pkcols)): out.append(('col_pk', db, t, name))
            out.append(('extra_col', db, t, None))
            autos = [i for i in il if i[3] != 'c']
            for i in il:
                if i[3] == 'c': out.append(('drop_index', db, t, i[1])); out.append(('rename_index', db, t, i[1]))
                elif len(autos) == 1 and i[3] == 'u': out.append(('drop_index', db, t, i[1]))      # a UNIQUE constraint removed (numbering of other automatic indices unaffected)
            out.append(('extra_index', db, t, None))
            # an index that covers another column of its table (not in the statement's list word for word, but a structural deviation of an index all the same)
            for i in il:
                for r in cat[(db, 'index_info', i[1])]:
                    others = [c[1] for c in cols if c[1] != r[2]][:2]
                    for o in others: out.append(('index_col', db, t, (i[1], r[0], o)))
        for v in views:
            out.append(('drop_view', db, v, None)); out.append(('rename_view', db, v, None))
        out.append(('extra_table', db, None, None)); out.append(('extra_view', db, None, None))
    if kinds: out = [d for d in out if d[0] in kinds]
    return out

def affected(cat, d):
    """the queries whose answer the deviation changes"""
    kind, db, obj, sub = d
    if kind in ('drop_table', 'rename_table'):
        qs = {(db, 'master', 'table'), (db, 'table_info', obj), (db, 'index_list', obj)}
        for i in cat[(db, 'index_list', obj)]: qs.add((db, 'index_info', i[1]))
        if cat[(db, 'index_list', obj)]: qs.add((db, 'master', 'index'))
        return qs
    if kind == 'extra_table': return {(db, 'master', 'table')}
    if kind in ('drop_view', 'rename_view', 'extra_view'): return {(db, 'master', 'view')} | ({(db, 'table_info', obj)} if obj else set())
    if kind in ('col_type', 'col_notnull', 'col_dflt', 'col_pk', 'extra_col'): return {(db, 'table_info', obj)}
    if kind == 'rename_col':
        qs = {(db, 'table_info', obj)}
        for i in cat[(db, 'index_list', obj)]:
            if any(r[2] == sub for r in cat[(db, 'index_info', i[1])]): qs.add((db, 'index_info', i[1]))
        return qs
    if kind == 'drop_col':
        qs = {(db, 'table_info', obj)}
        for i in cat[(db, 'index_list', obj)]:
            if any(r[2] == sub for r in cat[(db, 'index_info', i[1])]): qs |= {(db, 'index_info', i[1]), (db, 'index_list', obj), (db, 'master', 'index')}
        return qs
    if kind in ('drop_index', 'rename_index'): return {(db, 'index_list', obj), (db, 'index_info', sub), (db, 'master', 'index')}
    if kind == 'extra_index': return {(db, 'index_list', obj), (db, 'master', 'index')}
    if kind == 'index_col': return {(db, 'index_info', sub[0])}
    raise ValueError(kind)

# ------------------------------------------------------------------------------------------------ symbolic replacement values
IDENT_LO, IDENT_HI = 0x21, 0x7e
def sym_text(eng, st, name, n, differs_from=None, last_only=False):
    """n symbolic printable bytes (SQLite stores identifiers / type names / default expressions as text without NUL);
    last_only: only the last byte is symbolic, the rest is differs_from's prefix (the bounded "one-character rename" family)"""
    bs = []
    for i in range(n):
        if last_only and differs_from is not None and i < n - 1 and i < len(differs_from): bs.append(differs_from[i]); continue
        b = st.new_input('%s[%d]' % (name, i), 8, 'env')
        if not eng.assume(st, z3.And(z3.UGE(b, IDENT_LO), z3.ULE(b, IDENT_HI), b != 0x27, b != 0x22)): raise E.Inconclusive('infeasible', 'text range')
        bs.append(b)
    return tuple(bs)
def text_neq(bs, orig):
    """condition: the byte string bs (ints / z3 bytes) differs from the concrete bytes orig"""
    if len(bs) != len(orig): return True
    cs = []
    for b, o in zip(bs, orig):
        if b.__class__ is int:
            if b != o: return True
            continue
        cs.append(b != o)
    if not cs: return False
    return z3.Or(*cs) if len(cs) > 1 else cs[0]

class World:
    """per-path state: the chosen deviation with its symbolic values (immutable after creation; shared between forks)"""
    __slots__ = ('dev', 'vals', 'cond')
    def __init__(s, dev, vals, cond): s.dev, s.vals, s.cond = dev, vals, cond

def tv(x):
    if x is None: return ('null',)
    if isinstance(x, int): return ('int', x & ((1 << 64) - 1))
    if isinstance(x, str): return ('text', tuple(x.encode()))
    if isinstance(x, tuple): return ('text', x)        # already bytes (possibly symbolic)
    raise TypeError(x)

def instantiate(eng, st, cat, d, names_mode):
    """choose the symbolic replacement for deviation d; returns World.  Forks (eng.choose) over the few shapes of a replacement."""
    kind, db, obj, sub = d
    vals = {}; cond = True
    def other_names(existing, new):
        # a renamed / added object cannot carry the name of an existing one
        for e in existing:
            c = text_neq(new, tuple(e.encode()))
            if c is True: continue
            if c is False or not eng.assume(st, c): raise E.Inconclusive('infeasible', 'no fresh name')
    if kind in ('rename_table', 'rename_view', 'rename_col', 'rename_index'):
        old = sub if kind in ('rename_col', 'rename_index') else obj
        ob = tuple(old.encode())
        shape = eng.choose(st, 'rename-shape', 2 if names_mode != 'full' else 3)
        if shape == 0: new = sym_text(eng, st, 'newname', len(ob), ob, last_only=True)      # same length, last character differs
        elif shape == 1: new = ob + sym_text(eng, st, 'newname_tail', 1)                       # one character appended
        else: new = sym_text(eng, st, 'newname', len(ob))                                      # fully symbolic, same length
        c = text_neq(new, ob)
        if c is False: raise E.Inconclusive('infeasible', 'rename to itself')
        if c is not True and not eng.assume(st, c): raise E.Inconclusive('infeasible', 'rename to itself')
        if kind == 'rename_col': existing = [r[1] for r in cat[(db, 'table_info', obj)] if r[1] != old]
        elif kind == 'rename_index': existing = [r[1] for r in cat[(db, 'index_list', obj)] if r[1] != old]
        else: existing = [n for n, _ in cat[(db, 'master', 'table')] + cat[(db, 'master', 'view')] if n != old]
        other_names(existing, new)
        vals['name'] = new
    elif kind in ('extra_table', 'extra_view', 'extra_col', 'extra_index'):
        new = sym_text(eng, st, 'extraname', 3)
        if kind == 'extra_col': existing = [r[1] for r in cat[(db, 'table_info', obj)]]
        elif kind == 'extra_index': existing = [r[1] for r in cat[(db, 'index_list', obj)]]
        else: existing = [n for n, _ in cat[(db, 'master', 'table')] + cat[(db, 'master', 'view')]]
        other_names(existing, new)
        vals['name'] = new
        if kind == 'extra_col':
            vals['type'] = sym_text(eng, st, 'extratype', eng.choose(st, 'extratype-len', 2) * 4)
            nn = st.new_input('extranotnull', 8, 'env'); eng.assume(st, z3.ULE(nn, 1)); vals['notnull'] = z3.ZeroExt(56, nn)
        if kind == 'extra_index':
            u = st.new_input('extraunique', 8, 'env'); eng.assume(st, z3.ULE(u, 1)); vals['unique'] = z3.ZeroExt(56, u)
    elif kind in ('col_type', 'col_dflt'):
        row = [r for r in cat[(db, 'table_info', obj)] if r[1] == sub][0]
        old = row[2] if kind == 'col_type' else row[4]
        ob = tuple((old or '').encode())
        shapes = ['same', 'longer'] + (['empty'] if ob else [])
        if not ob: shapes = ['longer']
        sh = shapes[eng.choose(st, 'text-shape', len(shapes))]
        if sh == 'same': new = sym_text(eng, st, 'newtext', len(ob)); cond = text_neq(new, ob)
        elif sh == 'longer': new = sym_text(eng, st, 'newtext', len(ob) + 1)
        else: new = ()
        vals['text'] = new
        if kind == 'col_dflt' and sh == 'empty': vals['text'] = None          # no DEFAULT clause at all: dflt_value is NULL
    elif kind == 'col_notnull':
        row = [r for r in cat[(db, 'table_info', obj)] if r[1] == sub][0]
        v = st.new_input('newnotnull', 8, 'env'); eng.assume(st, z3.ULE(v, 1))
        vals['int'] = z3.ZeroExt(56, v); cond = (v != row[3])
    elif kind == 'col_pk':
        row = [r for r in cat[(db, 'table_info', obj)] if r[1] == sub][0]
        v = st.new_input('newpk', 8, 'env'); eng.assume(st, z3.ULE(v, 1))
        vals['int'] = z3.ZeroExt(56, v); cond = (v != row[5])
    return World(d, vals, cond)

def answer(cat, w, q):
    """rows (list of lists of value tuples) the world w answers for query q = (db, kind, name)"""
    db, qk, name = q
    base = cat.get(q)
    if base is None: base = []          # an object that does not exist: SQLite answers no rows
    rows = [list(r) for r in base]
    if w is None or w.dev is None or q not in affected(cat, w.dev): return [[tv(x) for x in r] for r in rows]
    kind, ddb, obj, sub = w.dev; v = w.vals
    def enc(rs): return [[x if (isinstance(x, tuple) and x and x[0] in ('int', 'text', 'null', 'sym')) else tv(x) for x in r] for r in rs]
    S = lambda x: ('int', x) if not isinstance(x, tuple) else ('text', x)
    if qk == 'master':
        if kind == 'drop_table' and name == 'table': rows = [r for r in rows if r[0] != obj]
        elif kind == 'rename_table' and name == 'table': rows = [[('text', v['name']), ('text', v['name'])] if r[0] == obj else r for r in rows]
        elif kind == 'extra_table' and name == 'table': rows.append([('text', v['name']), ('text', v['name'])])
        elif kind == 'drop_view' and name == 'view': rows = [r for r in rows if r[0] != obj]
        elif kind == 'rename_view' and name == 'view': rows = [[('text', v['name']), ('text', v['name'])] if r[0] == obj else r for r in rows]
        elif kind == 'extra_view' and name == 'view': rows.append([('text', v['name']), ('text', v['name'])])
        elif name == 'index':
            if kind in ('drop_table',): rows = [r for r in rows if r[1] != obj]
            elif kind == 'rename_table': rows = [[r[0], ('text', v['name'])] if r[1] == obj else r for r in rows]      # (automatic index names would change too; verify() never reads master rows of type index)
            elif kind == 'drop_index': rows = [r for r in rows if r[0] != sub]
            elif kind == 'rename_index': rows = [[('text', v['name']), r[1]] if r[0] == sub else r for r in rows]
            elif kind == 'extra_index': rows.append([('text', v['name']), obj])
            elif kind == 'drop_col':
                gone = [i[1] for i in cat[(db, 'index_list', obj)] if any(c[2] == sub for c in cat[(db, 'index_info', i[1])])]
                rows = [r for r in rows if r[0] not in gone]
        return enc(rows)
    if qk == 'table_info':
        if kind in ('drop_table', 'rename_table', 'drop_view', 'rename_view'): return []
        if kind == 'drop_col':
            rows = [r for r in rows if r[1] != sub]
            for i, r in enumerate(rows): r[0] = i
        elif kind == 'rename_col': rows = [[r[0], ('text', v['name'])] + r[2:] if r[1] == sub else r for r in rows]
        elif kind == 'extra_col': rows.append([len(rows), ('text', v['name']), ('text', v['type']), ('int', v['notnull']), None, 0])
        elif kind == 'col_type': rows = [r[:2] + [('text', v['text'])] + r[3:] if r[1] == sub else r for r in rows]
        elif kind == 'col_dflt': rows = [r[:4] + [('text', v['text']) if v['text'] is not None else None] + r[5:] if r[1] == sub else r for r in rows]
        elif kind == 'col_notnull': rows = [r[:3] + [('int', v['int'])] + r[4:] if r[1] == sub else r for r in rows]
        elif kind == 'col_pk': rows = [r[:5] + [('int', v['int'])] if r[1] == sub else r for r in rows]
        return enc(rows)
    if qk == 'index_list':
        if kind in ('drop_table', 'rename_table'): return []
        if kind == 'drop_index': rows = [r for r in rows if r[1] != sub]
        elif kind == 'rename_index': rows = [[r[0], ('text', v['name'])] + r[2:] if r[1] == sub else r for r in rows]
        elif kind == 'extra_index': rows = [[0, ('text', v['name']), ('int', v['unique']), 'c', 0]] + rows       # SQLite lists the newest index first
        elif kind == 'drop_col':
            gone = [i[1] for i in cat[(db, 'index_list', obj)] if any(c[2] == sub for c in cat[(db, 'index_info', i[1])])]
            rows = [r for r in rows if r[1] not in gone]
        for i, r in enumerate(rows): r[0] = i
        return enc(rows)
    if qk == 'index_info':
        if kind in ('drop_table', 'rename_table', 'drop_index', 'rename_index', 'drop_col'): return []
        if kind == 'rename_col': rows = [[r[0], r[1], ('text', v['name'])] if r[2] == sub else r for r in rows]
        elif kind == 'index_col':
            cid = [c[0] for c in cat[(db, 'table_info', obj)] if c[1] == sub[2]][0]
            rows = [[r[0], cid, sub[2]] if r[0] == sub[1] else r for r in rows]
        return enc(rows)
    raise ValueError(q)

# ------------------------------------------------------------------------------------------------ sqlite3 model glue
def install(eng, cat, devs, names_mode='last', allow_no_deviation=True):
    """catalog back end of lsx/models_sqlite.py: every read statement must be one of the four catalog queries.
    st.env['cat'] = (World or None, frozenset(answered queries), frozenset(deviations never offered yet))"""
    aff = {d: frozenset(affected(cat, d)) for d in devs}
    def execute(st, q_, s_):
        if s_.kind != 'read': return None
        w, answered, offered = st.env.get('cat', (None, frozenset(), frozenset()))
        q, proj = parse_query(s_.sql, s_.binds, cat, w)
        if q is None: raise E.Inconclusive('sqlmodel', 'not a catalog query: ' + s_.sql[:120])
        if w is None:
            # deviations whose first affected query is this one: verify() has not yet seen anything they change
            cand = [d for d in devs if q in aff[d] and not (aff[d] & answered)]
            if cand:
                k = eng.choose(st, 'deviation', len(cand) + 1)
                offered = offered | frozenset(cand)
                if k > 0:
                    w = instantiate(eng, st, cat, cand[k - 1], names_mode)
                    st.log.append('deviation %r' % (cand[k - 1],))
        st.env['cat'] = (w, answered | {q}, offered)
        rows = answer(cat, w, q)
        if proj is not None: rows = [[r[i] for i in proj] for r in rows]
        s_.rows = [{i: v for i, v in enumerate(r)} for r in rows]
        return len(rows)
    cfg = {'execute': execute, 'max_rows': 0}
    models_sqlite.install(eng, cfg)
    def m_dev(st, a):
        w = st.env.get('cat', (None,))[0]
        if w is None: return 0
        c = w.cond
        if c is True: return 1
        if c is False: return 0
        return E.simp(z3.If(c, z3.BitVecVal(1, 32), z3.BitVecVal(0, 32)))
    eng.models['verif_deviated'] = m_dev
    return aff
