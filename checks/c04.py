#!/usr/bin/env python3-vt
"""C04 - re-encoding a decoded foreign blob preserves every byte: for EVERY byte string of each length that a real
2.x from_blob accepts (all bytes symbolic), to_blob(from_blob(b)) has the same payload, modulo the one boolean byte.
Setter half (harness/h_foreign_v2.cpp): a per-field setter of djinterop::track over a track whose stored blobs are foreign
keeps every entry, flag and trailing byte it does not own."""
import sys, os
sys.path.insert(0, os.path.dirname(os.path.abspath(__file__)))
import common, codec_jobs, c04_setters
from common import Check, run_jobs, TIER
from lsx import driver

def main():
    ck = Check('C04')
    ll2 = driver.compile_ir('h_codec_v2.cpp'); driver.load_module(ll2)
    ck.native_spec = codec_jobs.NATIVE
    lmax = 52 if TIER == 'quick' else 80
    eo = {'max_steps': 4000000, 'max_paths': 20000}
    jobs = []
    for L in range(lmax, -1, -1):
        for kind in ('beat_data', 'quick_cues', 'loops', 'overview', 'track_data'):
            jobs.append(dict(harness='h_codec_v2.cpp', ll=ll2, entry='h_reenc_' + kind, params={'len': L}, models=['zlib_identity'], known=ck.known, eng_opts=eo))
    for L in range(lmax + 1, 100 if TIER == 'quick' else 140):
        jobs.append(dict(harness='h_codec_v2.cpp', ll=ll2, entry='h_reenc_beat_data', params={'len': L}, models=['zlib_identity'], known=ck.known, eng_opts=eo))
    # the setter half: one high-level setter over a track whose stored blobs are foreign (entry counts / flags / trailing data this library never writes)
    jobs += c04_setters.jobs(ck, TIER)
    rs = run_jobs(jobs)
    ck.add_results(rs)
    if not ck.reach_summary().get('accepted'): ck.machinery.append('vacuity guard: no accepted blob')
    ck.extra['bounds'] = {'payload_length': 'every length 0..%d (beat data up to %d), all bytes symbolic' % (lmax, 99 if TIER == 'quick' else 139),
                          'setter_half': 'track::%s over a 2.x track holding foreign blobs (10 loops / 10 hot cues with symbolic fields and labels, 2-marker grids, 3 trailing bytes; thorough: also 9 and 3 entries, other label lengths): blobs the setter does not own unchanged, inside its own blob only its field differs' % ', '.join(sorted(c04_setters.OPS.values())),
                          'outside': 'longer payloads; whole-list setters (set_hot_cues / set_loops / set_beatgrid replace the list by definition); set_waveform'}
    ck.assumptions = ['identity zlib framing', 'setter half: key/value sqlite3 model (as C01 / C06)']
    ck.trusted = ['clang-14 lowering', 'lsx executor + runtime models', 'z3']
    ck.finish()
if __name__ == '__main__': main()
