#!/usr/bin/env python3-vt
"""C15 - no public call has undefined behaviour, whatever its arguments (schema 2.x glue + kernels).
The executor's monitors (out-of-bounds / null / freed access, UBSan checks made explicit in the IR, use of an
uninitialised value in a branch, unreachable, terminate, step cap) run over every public 2.x operation with
out-of-range arguments and with a database that answers 0 or 1 rows (handles to removed tracks/crates) and blob columns
holding the encoding of an arbitrary struct; every path must end in a return or a std::exception."""
import sys, os
sys.path.insert(0, os.path.dirname(os.path.abspath(__file__)))
import common, api_common, codec_jobs
from common import Check, run_jobs, TIER
from lsx import driver
common.register_models('abs_v2_any_sym', lambda eng: api_common.install_abstract_v2(eng, rows_mode='any', concrete_blobs=False))
common.register_models('abs_v2_any_conc', lambda eng: api_common.install_abstract_v2(eng, rows_mode='any', concrete_blobs=True))
common.register_models('abs_v2_zero_td', lambda eng: api_common.install_abstract_v2(eng, rows_mode='one', concrete_blobs='zero_trackdata'))
common.register_models('abs_v2_one_sym', lambda eng: api_common.install_abstract_v2(eng, rows_mode='one', concrete_blobs=False))
SYMBLOB_OPS = {14, 19, 110, 114, 29, 21, 116, 3, 25, 26, 102, 120, 121}

def main():
    ck = Check('C15')
    # libstdc++ precondition checks (operator[] bounds, optional dereference, ...) made explicit in the IR: a feasible failure is source-level UB
    ll = driver.compile_ir('h_api_v2.cpp', defines=['_GLIBCXX_ASSERTIONS'], tag='.assert'); driver.load_module(ll)
    Q = TIER == 'quick'
    jobs = []
    eo = {'max_paths': 6000, 'max_steps': 3000000}
    allops = dict(api_common.OBSERVERS_V2); allops.update(api_common.MUTATORS_V2)
    for op, name in sorted(allops.items()):
        for sc in ([6] if Q else [0, 1, 6]):
            base = {'op': op, 'schema': sc, 'wide': 1, 'count': 9}
            jobs.append(dict(harness='h_api_v2.cpp', ll=ll, entry='h_op', params=base, models=['abs_v2_any_conc'], known=ck.known, must_reach=['call'], replay='none', allow_throw='none',
                             eng_opts=eo, label=name, max_bugs=10))
            if op in SYMBLOB_OPS:
                jobs.append(dict(harness='h_api_v2.cpp', ll=ll, entry='h_op', params=base, models=['abs_v2_one_sym'], known=ck.known, must_reach=['call'], replay='none', allow_throw='none',
                                 eng_opts=eo, label=name, max_bugs=10))
            if op in (124, 29, 0, 126, 152, 25, 26, 3, 17):
                # a stored track with no sample rate / sample count (all-zero track data)
                jobs.append(dict(harness='h_api_v2.cpp', ll=ll, entry='h_op', params=base, models=['abs_v2_zero_td'], known=ck.known, must_reach=['call'], replay='none', allow_throw='none',
                                 eng_opts=eo, label=name, max_bugs=10))
            if op in (111, 115):
                for cnt in (0, 8, 12):
                    jobs.append(dict(harness='h_api_v2.cpp', ll=ll, entry='h_op', params=dict(base, count=cnt), models=['abs_v2_any_conc'], known=ck.known, must_reach=['call'], replay='none',
                                     allow_throw='none', eng_opts=eo, label=name, max_bugs=10))
    # every double bit pattern as an argument (NaN, infinities, huge, tiny): the setters and snapshot writers that take doubles, both generations
    XD_OPS = (102, 103, 105, 110, 114, 116, 121, 126, 152)
    for op in XD_OPS:
        for mdl in ('abs_v2_any_conc',):
            jobs.append(dict(harness='h_api_v2.cpp', ll=ll, entry='h_op', params={'op': op, 'schema': 6, 'wide': 1, 'count': 9, 'xd': 1}, models=[mdl], known=ck.known, must_reach=['call'], replay='none',
                             allow_throw='none', eng_opts=eo, label=allops[op] + ' (any double)', max_bugs=10, time_limit=900))
    try:
        import api_v1
        jobs += api_v1.jobs_c15(ck)
        for op in XD_OPS:
            for sc in ([10, 0] if Q else [0, 3, 10]):
                for mdl in ('abs_v1_any_conc',):
                    jobs.append(dict(harness='h_api_v1.cpp', ll=api_v1.ll(defines=['_GLIBCXX_ASSERTIONS'], tag='.assert'), entry='h_op', params={'op': op, 'schema': sc, 'wide': 1, 'count': 9, 'gen': 1, 'xd': 1},
                                     models=[mdl], known=ck.known, must_reach=['call'], replay='none', allow_throw='none', eng_opts=eo, label='v1 ' + allops[op] + ' (any double)', max_bugs=10, time_limit=900))
    except ImportError: pass
    # kernels: 1.x encoders with 0..12 slots (fixed-size buffer), long labels; monitors only
    ll1 = driver.compile_ir('h_codec_v1.cpp'); driver.load_module(ll1)
    ck.native_spec = codec_jobs.NATIVE
    for kind in ('quick_cues', 'loops'):
        for k in ([0, 7, 9, 12] if Q else range(0, 13)):
            jobs.append(dict(harness='h_codec_v1.cpp', ll=ll1, entry='h_rt1_' + kind, params={'k1': k, 'll': 2, 'mask': (1 << k) - 1}, models=['zlib_identity'], known=ck.known,
                             other_property_kinds=['assert']))
    ck.add_results(run_jobs(jobs))
    ck.extra['bounds'] = {'operations': sorted(allops.values()), 'arguments': 'slot index every int in -1..9; cue/loop lists of 0, 8, 9, 12 entries; entity ids arbitrary; numeric setter arguments integer-valued doubles up to 2^20 and arbitrary int32; in the "any double" runs (set_average_loudness, set_beatgrid, set_bpm, set_hot_cue_at, set_loop_at, set_main_cue, set_sample_rate, update, create_track) every double argument / snapshot field is an arbitrary bit pattern (NaN, infinities, huge, subnormal)',
                          'database': 'every SELECT answers 0 or 1 rows (a removed track / crate answers 0); numeric columns in [0, 2^31]; blob columns: encoding of an arbitrary valid struct (symbolic content for the operations that interpret it)',
                          'outside': 'corrupted chains (cycles) in the database; UB inside SQLite or libz'}
    ck.assumptions = ['abstract sqlite3 model over-approximates reachable database states; counterexamples are solver models over its answers and are not replayed against a real SQLite',
                      'chains are well formed (a single answered row is the tail)']
    ck.trusted = ['clang-14 lowering + UBSan trap instrumentation', 'lsx executor monitors', 'lsx/models_sqlite.py', 'z3']
    ck.finish()
if __name__ == '__main__': main()
