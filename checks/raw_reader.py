"""raw_reader.py - C11: an independent reader of the stored tables (of the relational sqlite3 model), run after every operation of the crate and
membership harnesses.  It shares nothing with the library's accessors: it reads the raw rows with plain SELECTs and judges them against the
documented layout.  2.x: parent links acyclic and resolvable, the sibling chain of every parent and the entity chain of every list are single
acyclic lists covering all rows, entities refer to existing lists / tracks, origin ids of a track name the track and the database.  1.x: the three
redundant crate encodings (path strings, parent list, flattened hierarchy) describe the same forest; track lists refer to existing crates / tracks."""
import z3
from lsx import engine as E

class Reader:
    def __init__(s, eng, st): s.eng = eng; s.st = st
    def q(s, sql): return s.eng.rel_select(s.st, sql)
    def fail(s, msg):
        s.eng.ensure_model(s.st)
        raise E.Bug('assert', 'C11: ' + msg, s.st.model)
    def i(s, v, what):
        if v[0] == 'null': return None
        if v[0] != 'int' or v[1].__class__ is not int: raise E.Inconclusive('reader', 'symbolic or non-integer %s in the stored tables' % what)
        return E.to_signed(v[1], 64)
    def same_text(s, a, b):
        """True / False; symbolic bytes are decided by the solver: 'can they differ?'"""
        if a[0] != 'text' or b[0] != 'text': return a == b
        if len(a[1]) != len(b[1]): return False
        diffs = []
        for x, y in zip(a[1], b[1]):
            if x.__class__ is int and y.__class__ is int:
                if x != y: return False
            else: diffs.append(E.bv(x, 8) != E.bv(y, 8))
        if not diffs: return True
        return s.eng.check(s.st, z3.Or(*diffs)) is None

def chain_ok(rd, rows, what):
    """rows: {id: next}; a single acyclic list: exactly one tail (next == 0), every other next names a member, no shared successor, the backwards walk covers all"""
    if not rows: return
    tails = [k for k, n in rows.items() if n == 0]
    if len(tails) != 1: rd.fail('%s: %d rows have no successor (exactly one tail expected): %r' % (what, len(tails), rows))
    nexts = [n for n in rows.values() if n != 0]
    if len(set(nexts)) != len(nexts): rd.fail('%s: two rows share a successor: %r' % (what, rows))
    for n in nexts:
        if n not in rows: rd.fail('%s: successor %d is not a row of the same list: %r' % (what, n, rows))
    pred = {n: k for k, n in rows.items()}
    cur = tails[0]; seen = 1
    while cur in pred: cur = pred[cur]; seen += 1
    if seen != len(rows): rd.fail('%s: the chain from the tail covers %d of %d rows: %r' % (what, seen, len(rows), rows))

def read_v2(eng, st):
    rd = Reader(eng, st)
    pl = {rd.i(r[0], 'id'): (rd.i(r[1], 'parentListId'), rd.i(r[2], 'nextListId')) for r in rd.q('SELECT id, parentListId, nextListId FROM Playlist')}
    for k, (p, n) in pl.items():
        if p is None or n is None: rd.fail('Playlist %d has a NULL parent or successor' % k)
        if p != 0 and p not in pl: rd.fail('Playlist %d names a parent %d that does not exist' % (k, p))
        cur = p; steps = 0
        while cur != 0 and cur in pl:
            cur = pl[cur][0]; steps += 1
            if steps > len(pl): rd.fail('the parent links of Playlist contain a cycle through %d' % k)
    for p in set(v[0] for v in pl.values()):
        chain_ok(rd, {k: v[1] for k, v in pl.items() if v[0] == p}, 'sibling chain of parent %d' % p)
    uuid = rd.q('SELECT uuid FROM Information')
    tracks = {rd.i(r[0], 'id'): r for r in rd.q('SELECT id, originTrackId, originDatabaseUuid, path, filename FROM Track')}
    ents = [(rd.i(r[0], 'id'), rd.i(r[1], 'listId'), rd.i(r[2], 'trackId'), r[3], rd.i(r[4], 'nextEntityId')) for r in rd.q('SELECT id, listId, trackId, databaseUuid, nextEntityId FROM PlaylistEntity')]
    for eid, l, t, u, n in ents:
        if l not in pl: rd.fail('PlaylistEntity %d belongs to list %s which does not exist' % (eid, l))
        if uuid and rd.same_text(u, uuid[0][0]) and t not in tracks: rd.fail('PlaylistEntity %d names track %s of this database, which does not exist' % (eid, t))
    for l in set(e[1] for e in ents):
        chain_ok(rd, {e[0]: e[4] for e in ents if e[1] == l}, 'entity chain of list %d' % l)
        ts = [e[2] for e in ents if e[1] == l]
        if len(set(ts)) != len(ts): rd.fail('list %d holds a track twice' % l)
    for tid, r in tracks.items():
        if rd.i(r[1], 'originTrackId') != tid: rd.fail('Track %d: originTrackId is %s' % (tid, rd.i(r[1], 'originTrackId')))
        if uuid and not rd.same_text(r[2], uuid[0][0]): rd.fail('Track %d: originDatabaseUuid is not the uuid of the database' % tid)
        if r[3][0] == 'text' and r[4][0] == 'text' and all(b.__class__ is int for b in r[3][1] + r[4][1]):
            path = bytes(r[3][1]); fn = bytes(r[4][1])
            if path.rsplit(b'/', 1)[-1] != fn: rd.fail('Track %d: filename %r is not the file name of path %r' % (tid, fn, path))
    fk_check(eng, st, rd)
    st.log.append(('reach', 'raw-tables-read'))

def read_v1(eng, st):
    rd = Reader(eng, st)
    crates = {rd.i(r[0], 'id'): (r[1], r[2]) for r in rd.q('SELECT id, title, path FROM Crate')}
    par = {}
    for r in rd.q('SELECT crateOriginId, crateParentId FROM CrateParentList'):
        o, p = rd.i(r[0], 'crateOriginId'), rd.i(r[1], 'crateParentId')
        if o in par: rd.fail('crate %d has more than one CrateParentList row' % o)
        par[o] = p
    for c in crates:
        if c not in par: rd.fail('crate %d has no CrateParentList row' % c)
    for o, p in par.items():
        if o not in crates: rd.fail('CrateParentList row of crate %d which does not exist' % o)
        if p not in crates: rd.fail('crate %d names a parent %d that does not exist' % (o, p))
    def ancestors(c):
        out = []; cur = c; steps = 0
        while par[cur] != cur:
            cur = par[cur]; out.append(cur); steps += 1
            if steps > len(par): rd.fail('the parent links of the crates contain a cycle through %d' % c)
        return out
    want = set((a, c) for c in crates for a in ancestors(c))
    got = [(rd.i(r[0], 'crateId'), rd.i(r[1], 'crateIdChild')) for r in rd.q('SELECT crateId, crateIdChild FROM CrateHierarchy')]
    if len(set(got)) != len(got): rd.fail('CrateHierarchy holds a pair twice: %r' % sorted(got))
    if set(got) != want: rd.fail('CrateHierarchy %r is not the flattened hierarchy of the parent list %r' % (sorted(got), sorted(want)))
    for c, (title, path) in crates.items():
        chain = [c] + ancestors(c)
        exp = ()
        for x in reversed(chain):
            t = crates[x][0]
            if t[0] != 'text': rd.fail('crate %d has no title' % x)
            exp += tuple(t[1]) + (ord(';'),)
        if not rd.same_text(path, ('text', exp)): rd.fail('crate %d: path string does not spell the titles from the root to the crate' % c)
    tracks = set(rd.i(r[0], 'id') for r in rd.q('SELECT id FROM Track'))
    seen = set()
    for r in rd.q('SELECT crateId, trackId FROM CrateTrackList'):
        c, t = rd.i(r[0], 'crateId'), rd.i(r[1], 'trackId')
        if c not in crates: rd.fail('CrateTrackList row of crate %d which does not exist' % c)
        if t not in tracks: rd.fail('CrateTrackList names track %d which does not exist' % t)
        if (c, t) in seen: rd.fail('crate %d lists track %d twice' % (c, t))
        seen.add((c, t))
    fk_check(eng, st, rd)
    st.log.append(('reach', 'raw-tables-read'))

def fk_check(eng, st, rd):
    """what `PRAGMA foreign_key_check` computes, on the modelled rows: every row whose foreign-key columns are all non-NULL names an existing parent row
    (the declared FOREIGN KEY clauses are parsed from /repo's DDL; the library never switches enforcement on, so nothing else guarantees this)"""
    q = st.env.get('sq'); db = getattr(q, 'rel', None) if q is not None else None
    if db is None: return
    for tname, tdef in db.schema.tables.items():
        for fc, rt, rc, action in tdef.get('fks', []):
            parent = db.rows.get(rt.lower())
            if parent is None: continue
            pdef = db.schema.tables[rt.lower()]
            rcols = [c.lower() for c in rc] if rc and rc[0] is not None else [pdef['pk']] if isinstance(pdef['pk'], str) else list(pdef['pk'] or ())
            keys = set()
            for prow in parent.values():
                k = tuple(prow.get(c, ('null',)) for c in rcols)
                if all(v[0] == 'int' and v[1].__class__ is int for v in k): keys.add(tuple(v[1] for v in k))
                elif any(v[0] != 'null' for v in k): keys.add(None)      # a parent key the reader cannot compare (text / symbolic): be conservative below
            for rid, row in db.rows.get(tname, {}).items():
                k = tuple(row.get(c.lower(), ('null',)) for c in fc)
                if any(v[0] == 'null' for v in k): continue
                if not all(v[0] == 'int' and v[1].__class__ is int for v in k):
                    if None in keys or not keys: continue
                    raise E.Inconclusive('reader', 'symbolic or non-integer foreign key in %s' % tname)
                if tuple(v[1] for v in k) not in keys and None not in keys:
                    rd.fail('foreign key violation (what PRAGMA foreign_key_check reports): %s row %r names %s%r which does not exist' % (tdef['name'], rid, rt, tuple(E.to_signed(v[1], 64) for v in k)))

def install(eng, gen):
    eng.hooks = dict(getattr(eng, 'hooks', {}))
    eng.hooks['raw-tables'] = (lambda st: read_v2(eng, st)) if gen == 2 else (lambda st: read_v1(eng, st))
