#!/usr/bin/env python3-vt
"""C06 - getters return what setters stored and setters touch only their field (schema 2.x part).
One inductive step per setter: pre-state = a track created from an arbitrary snapshot (plus a second track standing for
"any other track"), one real setter with a symbolic value, then the real getter and the real snapshot()."""
import sys, os
sys.path.insert(0, os.path.dirname(os.path.abspath(__file__)))
import common, c01
from common import Check, run_jobs, TIER
from lsx import driver
ALL = (1 << 60) - 1
SETTERS = {0: 'album', 1: 'artist', 2: 'average_loudness', 3: 'bitrate', 4: 'bpm', 5: 'comment', 6: 'composer', 7: 'duration', 8: 'genre', 9: 'key', 10: 'last_played_at', 11: 'main_cue',
           12: 'publisher', 13: 'rating', 14: 'sample_count', 15: 'sample_rate', 16: 'title', 17: 'track_number', 18: 'year', 19: 'hot_cues', 20: 'hot_cue_at', 21: 'loops', 22: 'loop_at',
           23: 'beatgrid', 24: 'relative_path'}
# position of each optional field in the harness's presence mask (order of the present() calls in sym_snapshot); the new-value snapshot starts at bit 11
FIELD_BIT = {0: 0, 1: 1, 2: 2, 3: 3, 4: 4, 5: 5, 6: 6, 7: 7, 8: 9, 9: 10, 10: 11, 11: 12, 12: 13, 13: 14, 14: 15, 15: 16, 16: 17, 17: 18, 18: 19}
GROUP = {2: 11, 4: 12, 7: 13, 11: 14, 13: 15, 14: 16, 15: 17, 19: 2, 20: 2, 21: 2, 22: 2}      # numeric setters: only their own field symbolic (pre-state and new value)

def main():
    ck = Check('C06')
    Q = TIER == 'quick'
    eo = {'max_steps': 40000000, 'max_paths': 4000}
    jobs = []
    GENS = [(2, 'h_track_v2.cpp', 'kv_track_fast', [6, 0] if Q else [0, 1, 3, 6]),
            (1, 'h_track_v1.cpp', 'kv_track_v1', [10, 0] if Q else [0, 1, 3, 7, 10])]     # 1.x: 1.6.0, 1.7.1, 1.11.1, 1.15.0, 1.18.0-os (one per column-list range)
    for gen, harness, kv, schemas in GENS:
        ll = driver.compile_ir(harness); driver.load_module(ll)
        for sc in schemas:
            for op, name in sorted(SETTERS.items()):
                slots = [0] if op not in (20, 22) else ([0, 7] if Q else list(range(8)))
                for slot in slots:
                    p = dict(schema=sc, op=op, slot=slot, focus=GROUP.get(op, 3), mask=ALL, grid=2, cues=0x81, loops=0x05, wave=0, gen=gen)
                    if GROUP.get(op, 3) >= 11: p.update(cues=0x01, loops=0)
                    if GROUP.get(op) == 2: p.update(cues=0x05, loops=0x02)      # fewer symbolic slots: each adds a -1 sentinel fork per snapshot
                    p.update(vcues=p['cues'], vloops=p['loops'])
                    if op in (19, 21): p.update(cues=0x41, loops=0x20, vcues=0x05, vloops=0x02)     # stored lists longer than the new ones: the slots beyond the new list must be cleared
                    if gen == 1 and p['focus'] == 3: p.update(grid=0)          # 1.x: the stored BPM is derived from a (symbolic) grid when a sample rate is present (see C01)
                    if Q and sc != schemas[0] and op not in (4, 9, 14, 19, 24): continue
                    if op in FIELD_BIT and sc == schemas[0]:
                        # the same setter with an ABSENT new value over a present stored one (clearing a field through its setter)
                        p2 = dict(p, mask=ALL & ~(1 << (11 + FIELD_BIT[op])))
                        jobs.append(dict(harness=harness, ll=ll, entry='h_c06', params=p2, models=['zlib_identity', kv + ('_slow' if gen == 1 and op == 15 else '')], known=ck.known,
                                         must_reach=['setter-checked', 'other-track-checked'], eng_opts=eo, replay='none', time_limit=1500, allow_throw='none', label=name + ':clear'))
                    jobs.append(dict(harness=harness, ll=ll, entry='h_c06', params=p, models=['zlib_identity', kv + ('_slow' if gen == 1 and op == 15 else '')], known=ck.known,
                                     must_reach=['setter-checked', 'other-track-checked'], eng_opts=eo, replay='none', time_limit=1500, allow_throw='none', label=name))
    # a stored waveform must survive the other setters (found with seeded change C06-3: a "refresh" of the overview waveform inside set_sample_rate):
    # pre-state with a 3-entry waveform (resampled to the recommended extents on create), then the numeric setters with a symbolic new value
    for gen, harness, kv, schemas in GENS:
        ll = driver.compile_ir(harness)
        for op in (14, 15, 4, 13) if Q else (14, 15, 4, 13, 2, 7, 9, 11):
            p = dict(schema=schemas[0], op=op, slot=0, focus=GROUP.get(op, 3), mask=ALL, grid=0, cues=0x01, loops=0, wave=3, gen=gen, vcues=0x01, vloops=0)
            jobs.append(dict(harness=harness, ll=ll, entry='h_c06', params=p, models=['zlib_identity', kv + ('_slow' if gen == 1 and op == 15 else '')], known=ck.known,
                             must_reach=['setter-checked', 'other-track-checked'], eng_opts=eo, replay='none', time_limit=1500, allow_throw='none', label=SETTERS[op] + ':waveform-kept'))
    if os.environ.get('VERIF_GEN'): jobs = [j for j in jobs if str(j['params']['gen']) == os.environ['VERIF_GEN']]
    ck.add_results(run_jobs(jobs))
    ck.extra['bounds'] = {'setters': sorted(SETTERS.values()), 'slots': 'per-slot setters at slot 0 and 7 (thorough: every slot 0..7)',
                          'pre_state': 'track created from a snapshot whose focus group is symbolic; a second track created from another symbolic snapshot',
                          'outside': 'schema 1.x; set_waveform (resampling); sequences are covered by induction over the arbitrary pre-state, not enumerated'}
    ck.assumptions = ['key/value sqlite3 model', 'identity zlib framing', 'same normalisation oracle as C01']
    ck.trusted = ['clang-14 lowering', 'lsx executor', 'lsx/models_sqlite.py key/value model', 'z3']
    ck.finish()
if __name__ == '__main__': main()
