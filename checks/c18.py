#!/usr/bin/env python3-vt
"""C18 - a row written through the 2.x table API reads back as written.  Real track_table (add/get/update/remove/exists
and the per-column accessors) + real sqlite_modern_cpp binders/extractors over the key/value sqlite3 model; every
column value is symbolic, so a transposition of two same-typed columns is a satisfiable inequality for the solver."""
import sys, os
sys.path.insert(0, os.path.dirname(os.path.abspath(__file__)))
import common
from common import Check, run_jobs, TIER
from lsx import driver, models_zlib, models_sqlite, bv2int

def install(eng):
    models_sqlite.install_kv(eng, {'maintained': {'Track': ['lastEditTime']}, 'defaults': {'Track': {}}})
    eng.alt_solver = lambda pc, cond: bv2int.solve_int(pc, cond, 60000, None, getattr(eng, 'cur_ranges', None))
    eng.inc_timeout_ms = 1000; eng.timeout_ms = 3000
common.register_models('kv_track', install)

def main():
    ck = Check('C18')
    ll = driver.compile_ir('h_tables_v2.cpp'); driver.load_module(ll)
    Q = TIER == 'quick'
    schemas = [0, 1, 3, 6] if Q else [0, 1, 2, 3, 4, 5, 6]       # 2.18.0 | 2.20.1 (2.20.2) | 2.20.3 ... 2.21.2: the three column lists
    masks = [(1 << 60) - 1, 0, 0xAAAAAAAAAAAAAAA] if Q else [(1 << 60) - 1, 0, 0xAAAAAAAAAAAAAAA, 0x555555555555555, 0x0F0F0F0F0F0F0F0]
    base = {'k1': 1, 'k2': 0, 'll': 1, 'extra': 0}
    jobs = []
    eo = {'max_steps': 6000000}
    for sc in schemas:
        for mk in masks:
            for e, mr in (('h_track_add_get', ['compared']), ('h_track_update_get', ['compared']), ('h_track_missing', ['probed'])):
                jobs.append(dict(harness='h_tables_v2.cpp', ll=ll, entry=e, params=dict(base, schema=sc, mask=mk), models=['zlib_identity', 'kv_track'], known=ck.known,
                                 must_reach=mr, eng_opts=eo, replay='none', time_limit=900))
        for part in (0, 1, 2):
            for mk in masks[:2] if Q else masks[:3]:
                jobs.append(dict(harness='h_tables_v2.cpp', ll=ll, entry='h_track_columns', params=dict(base, schema=sc, mask=mk, part=part), models=['zlib_identity', 'kv_track'],
                                 known=ck.known, must_reach=['columns-done'], eng_opts=eo, replay='none', time_limit=900))
    if not Q:
        for sc in (0, 1, 6):
            jobs.append(dict(harness='h_tables_v2.cpp', ll=ll, entry='h_track_add_get', params={'k1': 2, 'k2': 1, 'll': 3, 'extra': 2, 'schema': sc, 'mask': (1 << 60) - 1}, models=['zlib_identity', 'kv_track'],
                             known=ck.known, must_reach=['compared'], eng_opts=eo, replay='none', time_limit=1500))
    ck.add_results(run_jobs(jobs))
    ck.extra['bounds'] = {'schemas': 'one run per column-list range: 2.18.0, 2.20.1/2.20.2, 2.20.3..2.21.2 (indices %r)' % schemas,
                          'row': 'all 48 fields symbolic: int64/int32/double over their full range, booleans, strings as one symbolic byte each, time points whole seconds in [0, 2^32], blob structs with 1 entry each',
                          'optionals': 'presence patterns (bit masks) %s' % [hex(m) for m in masks],
                          'outside': 'playlist_table / playlist_entity_table (text time stamps formatted through iostreams, multi-statement relational SQL: not encoded); SQLite type affinity; long strings'}
    ck.assumptions = ['key/value model of single-table INSERT / SELECT .. WHERE id = ? / UPDATE .. WHERE id = ? / DELETE (lsx/models_sqlite.py): column lists and ? positions are parsed from the real SQL text, a bound value is stored and returned unchanged',
                      'lastEditTime is maintained by the database (arbitrary value in [0, 2^32] after every write); origin uuid / origin track id are exempt as the statement says', 'identity zlib framing']
    ck.trusted = ['clang-14 lowering', 'lsx executor', 'lsx/models_sqlite.py key/value model', 'z3 (+ integer encoding for the seconds<->nanoseconds conversions)']
    ck.finish()
if __name__ == '__main__': main()
