#!/usr/bin/env python3-vt
"""C18 - a row written through the 2.x table API reads back as written.  Real track_table (add/get/update/remove/exists
and the per-column accessors) + real sqlite_modern_cpp binders/extractors over the key/value sqlite3 model; every
column value is symbolic, so a transposition of two same-typed columns is a satisfiable inequality for the solver."""
import sys, os
sys.path.insert(0, os.path.dirname(os.path.abspath(__file__)))
import common, api_common, rel_common, crates_common
from common import Check, run_jobs, TIER
from lsx import driver, models_zlib, models_sqlite, models_rel, bv2int

def install(eng):
    models_sqlite.install_kv(eng, {'maintained': {'Track': ['lastEditTime']}, 'defaults': {'Track': {}}})
    eng.alt_solver = lambda pc, cond: bv2int.solve_int(pc, cond, 60000, None, getattr(eng, 'cur_ranges', None))
    eng.inc_timeout_ms = 1000; eng.timeout_ms = 3000
common.register_models('kv_track', install)

def _mk_rel(idx):
    # the playlist tables over the relational model; time stamps through the injective text contract (api_common.install_time_contract)
    def inst(eng):
        api_common.install_time_contract(eng)
        models_rel.install_rel(eng, {'ddl': rel_common.ddl_for(2, idx), 'seed': rel_common.seed_for(2, idx)})
        eng.alt_solver = lambda pc, cond: bv2int.solve_int(pc, cond, 60000, None, getattr(eng, 'cur_ranges', None))
        eng.inc_timeout_ms = 1000; eng.timeout_ms = 10000
    return inst
for _i in range(7): common.register_models('relt_g2_s%d' % _i, _mk_rel(_i))

def main():
    ck = Check('C18')
    ll = driver.compile_ir('h_tables_v2.cpp'); driver.load_module(ll)
    Q = TIER == 'quick'
    schemas = [0, 1, 3, 6] if Q else [0, 1, 2, 3, 4, 5, 6]       # 2.18.0 | 2.20.1 (2.20.2) | 2.20.3 ... 2.21.2: the three column lists
    masks = [(1 << 60) - 1, 0, 0xAAAAAAAAAAAAAAA] if Q else [(1 << 60) - 1, 0, 0xAAAAAAAAAAAAAAA, 0x555555555555555, 0x0F0F0F0F0F0F0F0]
    base = {'k1': 1, 'k2': 0, 'll': 1, 'extra': 0}
    jobs = []
    eo = {'max_steps': 6000000}
    for sc in schemas:
        for mk in masks:
            for e, mr in (('h_track_add_get', ['compared']), ('h_track_update_get', ['compared']), ('h_track_missing', ['probed'])):
                jobs.append(dict(harness='h_tables_v2.cpp', ll=ll, entry=e, params=dict(base, schema=sc, mask=mk), models=['zlib_identity', 'kv_track'], known=ck.known,
                                 must_reach=mr, eng_opts=eo, replay='none', time_limit=900))
        for part in (0, 1, 2):
            for mk in masks[:2] if Q else masks[:3]:
                jobs.append(dict(harness='h_tables_v2.cpp', ll=ll, entry='h_track_columns', params=dict(base, schema=sc, mask=mk, part=part), models=['zlib_identity', 'kv_track'],
                                 known=ck.known, must_reach=['columns-done'], eng_opts=eo, replay='none', time_limit=900))
    if not Q:
        for sc in (0, 1, 6):
            jobs.append(dict(harness='h_tables_v2.cpp', ll=ll, entry='h_track_add_get', params={'k1': 2, 'k2': 1, 'll': 3, 'extra': 2, 'schema': sc, 'mask': (1 << 60) - 1}, models=['zlib_identity', 'kv_track'],
                             known=ck.known, must_reach=['compared'], eng_opts=eo, replay='none', time_limit=1500))
    # ---- playlist_table / playlist_entity_table / information_table over the relational model (public table headers; native replay)
    ck.assert_filter = r'C18'
    llp = driver.compile_ir('h_plrows_v2.cpp'); driver.load_module(llp)
    ck.native_spec['h_plrows_v2.cpp'] = {'public': True}
    eor = {'max_steps': 60000000, 'max_paths': 8000}
    rjobs = []
    for sc in ([6, 0] if Q else range(7)):
        mdl = ['zlib_identity', 'relt_g2_s%d' % sc]
        for padd in (0, 1, 2):
          rjobs.append(dict(harness='h_plrows_v2.cpp', ll=llp, entry='h_playlist_row', params=dict(gen=2, schema=sc, shape='playlist-row', nsym=1, padd=padd), models=mdl, known=ck.known,
                          must_reach=['prefix', 'added', 'updated', 'removed'] + (['add-refused'] if padd < 2 else []), eng_opts=eor, replay='native', time_limit=1500, allow_throw='none', nsamples=4, max_bugs=8,
                          assert_filter=r'C18', label='playlist-row'))
        for n, then, tid in ((2, 1, 0), (2, 2, 0), (2, 0, 1)) if Q else ((2, 1, 0), (2, 2, 0), (2, 0, 1), (3, 1, 0), (3, 0, 1)):
            if Q and sc != 6 and (then, tid) != (1, 0): continue
            rjobs.append(dict(harness='h_plrows_v2.cpp', ll=llp, entry='h_entity_row', params=dict(gen=2, schema=sc, n=n, then=then, throw_if_duplicate=tid, shape='entity-row', nsym=n), models=mdl,
                              known=ck.known, must_reach=['added', 'checked'], eng_opts=eor, replay='native', time_limit=1500, allow_throw='none', nsamples=3, max_bugs=8,
                              assert_filter=r'C18', label='entity-row'))
        rjobs.append(dict(harness='h_plrows_v2.cpp', ll=llp, entry='h_information_row', params=dict(gen=2, schema=sc, shape='information-row', nsym=0), models=mdl, known=ck.known,
                          must_reach=['checked'], eng_opts=eor, replay='native', time_limit=600, allow_throw='none', nsamples=1, max_bugs=4, assert_filter=r'C18', label='information-row'))
    res = run_jobs(jobs + rjobs)
    ck.add_results(res)
    crates_common.native_validate(ck, [r for r in res if r.job['harness'] == 'h_plrows_v2.cpp'])
    ck.extra['bounds'] = {'schemas': 'one run per column-list range: 2.18.0, 2.20.1/2.20.2, 2.20.3..2.21.2 (indices %r)' % schemas,
                          'row': 'all 48 fields symbolic: int64/int32/double over their full range, booleans, strings as one symbolic byte each, time points whole seconds in [0, 2^32], blob structs with 1 entry each',
                          'optionals': 'presence patterns (bit masks) %s' % [hex(m) for m in masks],
                          'playlist_tables': 'playlist_table add / get / exists / update (same position or moved: parent and successor among 4 existing lists) / remove with symbolic one-byte title, both flags, whole-second edit time in [0, 2^32]; playlist_entity_table add_back (with and without throw_if_duplicate) / get / get_for_list / remove / clear with 2 (thorough: 3) entities over 2 lists, track ids 1..3, two database uuids, arbitrary membership reference and next_entity_id; information_table get / update_current_played_indicator (all int64)',
                          'outside': 'SQLite type affinity; long strings; sub-second edit times (the text format keeps whole seconds); titles longer than one byte; playlist_table::remove of a nonexistent id (not documented to fail: not asserted)'}
    ck.assumptions = ['key/value model of single-table INSERT / SELECT .. WHERE id = ? / UPDATE .. WHERE id = ? / DELETE (lsx/models_sqlite.py): column lists and ? positions are parsed from the real SQL text, a bound value is stored and returned unchanged',
                      'lastEditTime is maintained by the database (arbitrary value in [0, 2^32] after every write); origin uuid / origin track id are exempt as the statement says', 'identity zlib framing',
                      'playlist tables: lsx/models_rel.py stands for SQLite (schema parsed from /repo DDL; sampled paths and every counterexample replayed natively through the public table API over the real SQLite)',
                      'util::to_ft / util::parse_ft (date.h over iostreams) replaced by an injective text code of the whole-second part: parse_ft(to_ft(t)) == floor_seconds(t) for 1970..2262']
    ck.trusted = ['clang-14 lowering', 'lsx executor', 'lsx/models_sqlite.py key/value model', 'z3 (+ integer encoding for the seconds<->nanoseconds conversions)']
    ck.finish()
if __name__ == '__main__': main()
