"""driver.py - front end (compile /repo's current tree to IR), run harnesses, collect results."""
import z3, os, subprocess, sys, time, hashlib, json, re
from . import ir, engine as E

VERIF = os.path.dirname(os.path.dirname(os.path.abspath(__file__)))
REPO = os.environ.get('VERIF_REPO', '/repo')
BUILD = os.environ.get('VERIF_BUILD', os.path.join(VERIF, 'build'))
CLANG = 'clang++-14'
LINK = 'llvm-link-14'
IRFLAGS = ['-std=gnu++17', '-DNDEBUG', '-DDJINTEROP_SOURCE', '-O1', '-fno-vectorize', '-fno-slp-vectorize', '-fno-unroll-loops',
           '-fno-strict-aliasing', '-S', '-emit-llvm', '-Wno-everything']
# source-level UB made explicit in the IR (immune to the optimiser dropping nsw flags): each check becomes a
# branch to llvm.ubsantrap(kind), which the executor reports as a Bug when the branch is feasible
UBFLAGS = ['-fsanitize=signed-integer-overflow,shift,integer-divide-by-zero,float-cast-overflow,bounds,bool,enum,return,unreachable,vla-bound',
           '-fsanitize-trap=all']

def gen_config():
    """regenerate config.hpp from /repo's config.hpp.in (the check must not depend on /repo/_build)"""
    d = os.path.join(BUILD, 'include', 'djinterop'); os.makedirs(d, exist_ok=True)
    src = open(os.path.join(REPO, 'include/djinterop/config.hpp.in')).read()
    out = re.sub(r'#cmakedefine\s+(\w+)', r'/* #undef \1 */', src)
    p = os.path.join(d, 'config.hpp')
    if not os.path.exists(p) or open(p).read() != out: open(p, 'w').write(out)
    return os.path.join(BUILD, 'include')

def incs():
    return ['-I' + gen_config(), '-I' + os.path.join(REPO, 'include'), '-I' + os.path.join(REPO, 'src'),
            '-I' + os.path.join(REPO, 'src/djinterop/engine/v1'), '-I' + os.path.join(REPO, 'src/djinterop/engine/v2'), '-I' + os.path.join(REPO, 'src/djinterop/engine'),
            '-I' + os.path.join(REPO, 'ext/sqlite_modern_cpp'), '-I' + os.path.join(REPO, 'ext/date'), '-I' + os.path.join(VERIF, 'harness')]

# clang-compatibility rewrites of /repo sources (the project is built with g++; clang 14 rejects one construct).  Applied to a
# copy under build/patched/ on every run; if the pattern is not found the file is used unchanged (and clang reports the error).
REPO_PATCHES = {
    'src/djinterop/engine/v1/engine_storage.cpp': [
        # delegating constructor initialised from a prvalue of the same class: g++ elides the copy, clang 14 asks for the (deleted) copy
        # constructor.  The rewrite keeps the REAL body of load_existing (whatever the working tree holds): only its return type becomes a
        # plain aggregate of the three constructor arguments, and the delegating constructor passes them on to the public three-argument
        # constructor (braced-init-list: evaluated left to right, load_existing runs exactly once).  An earlier version of this rewrite
        # transcribed the body of load_existing into the constructor - a change to load_existing was then invisible (seeded change C13-4).
        (re.compile(r'engine_storage load_existing\(const std::string& directory\)'),
         'struct verif_parts { std::string directory; engine_schema schema; sqlite::database db; };\nverif_parts load_existing(const std::string& directory)'),
        (re.compile(r'return engine_storage\{directory, schema, db\};'), 'return verif_parts{directory, schema, db};'),
        (re.compile(r'engine_storage::engine_storage\(const std::string& directory\) :\s*engine_storage\{load_existing\(directory\)\}'),
         'static verif_parts* verif_last;\nstatic verif_parts& verif_load(const std::string& d) { delete verif_last; verif_last = new verif_parts(load_existing(d)); return *verif_last; }\n'
         'engine_storage::engine_storage(const std::string& directory) :\n    engine_storage{verif_load(directory).directory, verif_last->schema, verif_last->db}')],
}
def patched_repo_file(rel):
    src = os.path.join(REPO, rel)
    txt = open(src).read(); out = txt
    for rx, rep in REPO_PATCHES[rel]: out = rx.sub(rep, out)
    if out == txt: return src
    dst = os.path.join(BUILD, 'patched', rel)
    os.makedirs(os.path.dirname(dst), exist_ok=True)
    if not os.path.exists(dst) or open(dst).read() != out: open(dst, 'w').write(out)
    return dst

def harness_src(name):
    """harness sources hard-code /repo in their #include lines; rewritten when VERIF_REPO points elsewhere or when an
    included /repo source needs a clang-compatibility rewrite (also inside the harness's own headers, whose rewritten
    copies are placed next to the rewritten main file so that the quoted include finds them first)"""
    def rewrite(txt):
        out = txt
        for rel in REPO_PATCHES:
            inc = '"/repo/' + rel + '"'
            if inc in out: out = out.replace(inc, '"' + patched_repo_file(rel) + '"')
        if REPO != '/repo': out = out.replace('"/repo/', '"' + REPO + '/')
        return out
    p = os.path.join(VERIF, 'harness', name)
    txt = open(p).read(); out = rewrite(txt)
    changed = out != txt
    os.makedirs(BUILD, exist_ok=True)
    for h in re.findall(r'#include "([\w.]+\.h)"', txt):
        hp = os.path.join(VERIF, 'harness', h)
        if not os.path.exists(hp): continue
        ht = open(hp).read(); ho = rewrite(ht)
        hq = os.path.join(BUILD, h)
        if ho != ht:
            changed = True
            if not os.path.exists(hq) or open(hq).read() != ho: open(hq, 'w').write(ho)
        elif os.path.exists(hq): os.unlink(hq)
    if not changed: return p
    q = os.path.join(BUILD, 'h_' + hashlib.md5(REPO.encode()).hexdigest()[:8] + '_' + name)
    if not os.path.exists(q) or open(q).read() != out: open(q, 'w').write(out)
    return q

def compile_ir(name, defines=(), link_string=True, tag='', ubsan=True):
    """compile harness/<name> (which #includes real sources from /repo) to one linked .ll; always recompiles"""
    os.makedirs(BUILD, exist_ok=True)
    base = os.path.splitext(name)[0] + tag
    ll = os.path.join(BUILD, base + '.ll')
    cmd = [CLANG] + IRFLAGS + (UBFLAGS if ubsan else []) + incs() + ['-D' + d for d in defines] + [harness_src(name), '-o', ll]
    r = subprocess.run(cmd, capture_output=True, text=True)
    if r.returncode: raise RuntimeError('IR compile failed: %s\n%s' % (' '.join(cmd), r.stderr[-4000:]))
    if not link_string: return ll
    sl = os.path.join(BUILD, 'strinst.ll')
    if not os.path.exists(sl):
        r = subprocess.run([CLANG] + IRFLAGS + [os.path.join(VERIF, 'harness', 'strinst.cpp'), '-o', sl], capture_output=True, text=True)
        if r.returncode: raise RuntimeError('strinst compile failed\n' + r.stderr[-2000:])
    out = os.path.join(BUILD, base + '.linked.ll')
    r = subprocess.run([LINK, '-S', ll, sl, '-o', out], capture_output=True, text=True)
    if r.returncode: raise RuntimeError('llvm-link failed\n' + r.stderr[-2000:])
    return out

_MODCACHE = {}
def load_module(path):
    k = (path, os.path.getmtime(path))
    if k not in _MODCACHE:
        M = ir.Module(); M.parse(open(path).read()); _MODCACHE[k] = M
    return _MODCACHE[k]

def model_inputs(st, model):
    """concrete values of the harness inputs of a state under `model`, in creation order"""
    out = []
    for kind, name, bits, v in st.inputs:
        x = model.eval(v, model_completion=True).as_long() if model is not None else 0
        out.append({'name': name, 'bits': bits, 'value': x, 'kind': kind})
    return out

def describe(out):
    k = out[0]
    if k == 'bug': return 'BUG[%s] %s' % (out[1].kind, out[1].msg)
    if k == 'inconclusive': return 'INCONCLUSIVE[%s] %s' % (out[1].kind, out[1].msg)
    if k == 'threw': return 'threw ' + out[1].tname
    if k == 'known-finding': return 'known-finding ' + str(out[1])
    return k

class Result:
    """summary of one harness run (picklable)"""
    def __init__(s):
        s.entry = ''; s.params = {}; s.paths = 0; s.outcomes = {}; s.bugs = []; s.inconclusive = []
        s.routes = []; s.reached = {}; s.stats = {}; s.wall = 0.0; s.funcs = []; s.samples = []; s.asserts = 0; s.models_used = []
    def ok(s): return not s.bugs and not s.inconclusive

OPTIONAL_PARAMS = {'xd': 0, 'peek': 0}
def run_harness(ll, entry, params=None, setup=None, on_end=None, env_models=None, witness=None, eng_opts=None, args=(), max_bugs=8, allow_throw=None, time_limit=None, concrete=None, nsamples=3):
    """Symbolically execute harness entry `entry` of module `ll` over all paths.
    params: dict of concrete harness parameters (read by models such as verif_len)
    Returns Result."""
    t0 = time.time()
    M = load_module(ll)
    eng = E.Engine(M, **(eng_opts or {}))
    params = params or {}
    eng.params = params
    eng.models['verif_len'] = lambda st, a: params.get('len', 0)
    def v_param(st, a):
        nm = eng.read_cstr(st, a[0]).decode()
        if nm not in params:
            if nm in OPTIONAL_PARAMS: return OPTIONAL_PARAMS[nm]       # run parameters added later with a default that keeps the earlier behaviour
            raise E.Inconclusive('harness', 'missing harness parameter ' + nm)
        return params[nm]
    eng.models['verif_param'] = v_param
    used = set()
    for install in (env_models or []): install(eng)
    eng.env_witness = witness
    if concrete is not None: eng.concrete_inputs = list(concrete)
    st = E.State(eng)
    if setup: setup(eng, st)
    eng.push_frame(st, entry, list(args))
    res = Result(); res.entry = entry; res.params = dict(params)
    def end(out, st_):
        if out[0] == 'returned' and '_final' in st_.env: out = st_.env['_final']
        if out[0] == 'threw':
            tn = out[1].tname
            if allow_throw is None or not allow_throw(eng, tn):
                eng.ensure_model(st_)
                return ('bug', E.Bug('escaped-exception', 'exception of type %s escaped the harness' % tn, st_.model))
        if on_end: return on_end(eng, out, st_)
        return None
    results = eng.explore(st, on_end=end, time_limit=time_limit)
    returned = []
    for out, s_ in results:
        d = describe(out)
        key = d if out[0] not in ('bug', 'inconclusive') else d[:200]
        res.outcomes[key] = res.outcomes.get(key, 0) + 1
        for e in s_.log:
            if e[0] == 'reach': res.reached[e[1]] = res.reached.get(e[1], 0) + 1
            elif e[0] == 'route': res.routes.append(list(e[1:]))
        res.asserts += s_.env.get('asserts', 0)
        if out[0] == 'bug':
            if len(res.bugs) < max_bugs:
                b = out[1]
                res.bugs.append({'kind': b.kind, 'msg': b.msg, 'inputs': model_inputs(s_, b.model), 'log': [list(map(str, e)) for e in s_.log[-30:]],
                                 'choices': [[str(k), v[0]] for k, v in s_.decisions.items() if isinstance(k, str)]})
        elif out[0] == 'inconclusive':
            if len(res.inconclusive) < max_bugs: res.inconclusive.append({'kind': out[1].kind, 'msg': out[1].msg})
        else: returned.append((d, s_))
    # samples of completed paths (evenly spread over the exploration order): evidence, and inputs for native validation runs
    if returned:
        stride = max(1, len(returned) // max(1, nsamples))
        for d, s_ in returned[::stride][:nsamples]:
            try:
                eng.model_true(s_, z3.BoolVal(True))       # re-validates the witness model against conjuncts appended by environment models (declared ranges)
                eng.ensure_model(s_)
                res.samples.append({'outcome': d, 'inputs': [x for x in model_inputs(s_, s_.model) if x['kind'] != 'env'][:64], 'steps': s_.steps,
                                    'reached': [e[1] for e in s_.log if e[0] == 'reach']})
            except E.Inconclusive: pass
    res.known_hits = {}
    for kid, hits in eng.known_hits.items():
        b, inputs, log = hits[0]
        res.known_hits[kid] = {'count': len(hits), 'msg': b.msg[:300]}
    res.paths = len(results)
    res.stats = dict(eng.stats); res.wall = time.time() - t0
    res.funcs = sorted(eng.funcs_touched)
    res.ninstr = sum(M.funcs[f].ninstr for f in eng.funcs_touched)
    return res

# ---------------------------------------------------------------------------- native replay
NATIVE_FLAGS = ['-std=gnu++17', '-DNDEBUG', '-DDJINTEROP_SOURCE', '-DVERIF_NATIVE', '-O1', '-g', '-fno-omit-frame-pointer', '-w']
# nonnull-attribute is off: memcpy(dst, nullptr, 0) from an empty std::vector is flagged by it, is accepted by every libc and
# defined by C2y; it would abort replays before they reach the behaviour being replayed (stated as outside in DESIGN.md)
SAN = ['-fsanitize=address,undefined', '-fno-sanitize=nonnull-attribute', '-fno-sanitize-recover=all']
def build_native(name, extra_src=(), libs=('-lz',), sanitize=True, tag=''):
    """build harness/<name> natively (clang, ASan+UBSan) against /repo's current sources"""
    os.makedirs(BUILD, exist_ok=True)
    exe = os.path.join(BUILD, os.path.splitext(name)[0] + tag + ('.san' if sanitize else '.nat'))
    srcs = [harness_src(name), os.path.join(VERIF, 'harness', 'verif_native.cpp')] + [os.path.join(REPO, x) for x in extra_src]
    base = [CLANG] + NATIVE_FLAGS + (SAN if sanitize else []) + incs()
    link = ['-rdynamic', '-ldl'] + list(libs) + ['-o', exe]
    objs = []
    for i, src in enumerate(srcs):
        o = exe + '.%d.o' % i
        r = subprocess.run(base + ['-c', src, '-o', o], capture_output=True, text=True)
        if r.returncode: raise RuntimeError('native compile failed: %s\n%s' % (src, r.stderr[-4000:]))
        objs.append(o)
    r = subprocess.run([CLANG] + (SAN if sanitize else []) + objs + ['-Wl,--no-demangle'] + link, capture_output=True, text=True)
    if r.returncode:
        # a kernel harness that #includes a large real TU only needs the functions it actually calls: every symbol the
        # rest of the library would provide becomes a weak absolute-zero stub (calling one would crash, which a replay
        # would report as a mismatch, never as a confirmation)
        und = sorted(set(re.findall(r"undefined reference to `([^']+)'", r.stderr)))
        if not und: raise RuntimeError('native link failed:\n' + r.stderr[-4000:])
        stub = exe + '.stubs.c'
        with open(stub, 'w') as f:
            for i, u in enumerate(und):
                f.write('__attribute__((weak)) void verif_stub_%d(void) __asm__("%s");\nvoid verif_stub_%d(void) { __builtin_trap(); }\n' % (i, u, i))
        r = subprocess.run([CLANG, '-w', '-x', 'none'] + (SAN if sanitize else []) + objs + [stub, '-Wl,--no-demangle'] + link, capture_output=True, text=True)
        if r.returncode: raise RuntimeError('native link failed (with stubs):\n' + r.stderr[-4000:])
    return exe

NATIVE_LIB = os.path.join(BUILD, 'nativelib')
def build_native_lib():
    """the whole library built from /repo's current working tree (cmake, system SQLite), for replays through the public API"""
    os.makedirs(NATIVE_LIB, exist_ok=True)
    if not os.path.exists(os.path.join(NATIVE_LIB, 'build.ninja')):
        r = subprocess.run(['cmake', '-G', 'Ninja', '-S', REPO, '-B', NATIVE_LIB, '-DCMAKE_BUILD_TYPE=RelWithDebInfo', '-DSYSTEM_SQLITE=ON', '-DBUILD_TESTING=OFF',
                            '-DCMAKE_CXX_FLAGS=-Wno-error'], capture_output=True, text=True)
        if r.returncode: raise RuntimeError('cmake configure failed:\n' + (r.stdout + r.stderr)[-3000:])
    r = subprocess.run(['cmake', '--build', NATIVE_LIB, '-j', '12'], capture_output=True, text=True)
    if r.returncode: raise RuntimeError('native library build failed:\n' + (r.stdout + r.stderr)[-3000:])
    return NATIVE_LIB
def build_native_public(name, tag=''):
    """harness/<name> compiled with -DVERIF_NATIVE against the freshly built library (public API only) and the real SQLite"""
    lib = build_native_lib()
    exe = os.path.join(BUILD, os.path.splitext(name)[0] + tag + '.pub')
    cmd = ['g++', '-std=c++17', '-O1', '-g', '-DVERIF_NATIVE', '-I' + os.path.join(VERIF, 'harness'), '-I' + os.path.join(REPO, 'include'), '-I' + os.path.join(lib, 'include'),
           os.path.join(VERIF, 'harness', name), os.path.join(VERIF, 'harness', 'verif_native.cpp'), '-o', exe, '-rdynamic', '-L' + lib, '-ldjinterop', '-Wl,-rpath,' + lib, '-ldl']
    r = subprocess.run(cmd, capture_output=True, text=True)
    if r.returncode: raise RuntimeError('native (public API) build failed:\n' + r.stderr[-4000:])
    return exe

def write_replay(path, inputs, meta=None):
    """inputs: list of {'bits','value',...}; plain text 'bits value' lines + a JSON sidecar"""
    os.makedirs(os.path.dirname(path), exist_ok=True)
    with open(path, 'w') as f:
        for i in inputs:
            if i.get('kind') == 'env': continue          # values invented by environment models are not harness inputs
            f.write('%d %d\n' % (i['bits'], i['value']))
    if meta is not None:
        json.dump(meta, open(path + '.json', 'w'), indent=1)

def run_native(exe, entry, replay, params=None, timeout=30, assert_filter=None):
    env = dict(os.environ)
    # as in the symbolic run: an assertion of a shared harness body that belongs to another property does not end the run
    if assert_filter: env['VERIF_ASSERT_FILTER'] = assert_filter
    else: env.pop('VERIF_ASSERT_FILTER', None)
    env['VERIF_REPLAY'] = replay
    env['VERIF_PARAMS'] = ','.join('%s=%d' % kv for kv in (params or {}).items())
    env['ASAN_OPTIONS'] = 'detect_leaks=0:abort_on_error=0:exitcode=86:allocator_may_return_null=1'
    env['UBSAN_OPTIONS'] = 'print_stacktrace=1:halt_on_error=1:exitcode=87'
    try:
        r = subprocess.run([exe, entry, str(timeout)], capture_output=True, text=True, env=env, timeout=timeout + 10, errors='replace')
        return r.returncode, r.stdout, r.stderr
    except subprocess.TimeoutExpired as e:
        return -14, (e.stdout or b'').decode(errors='replace') if isinstance(e.stdout, bytes) else (e.stdout or ''), 'TIMEOUT'

def classify_native(rc, out, err):
    """-> (reproduced-a-failure?, description)"""
    if rc == 0: return False, 'returned normally'
    if rc == 77: return False, 'replay invalid: an assumption does not hold natively'
    if rc == 78: return False, 'replay invalid: ' + out.strip().splitlines()[-1] if out.strip() else 'replay invalid'
    if rc == 99: return True, [l for l in out.splitlines() if l.startswith('VERIF-ASSERT-FAILED')][-1]
    if rc in (97, 98): return True, out.strip().splitlines()[-1]
    if rc in (-14, 142) or err == 'TIMEOUT': return True, 'did not terminate within the watchdog (SIGALRM)'
    m = re.search(r'(runtime error: [^\n]*|ERROR: AddressSanitizer: [^\n]*)', err)
    if m: return True, m.group(1)[:300]
    if rc < 0: return True, 'killed by signal %d' % -rc
    return True, 'exit code %d: %s' % (rc, (err or out)[-200:])
