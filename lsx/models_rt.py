"""models_rt.py - environment models: C/C++ runtime, libc string functions, harness API (verif_*).

Every model here is part of the trusted base of a claim and is listed in the evidence by name.
"""
import z3, re
from .ir import P, NULL, FnPtr, Agg, Undef
from . import engine as E

def install(eng):
    M = eng.models
    def model(*names):
        def deco(f):
            for n in names: M[n] = f
            return f
        return deco
    simp, bv, boolv, is_sym = E.simp, E.bv, E.boolv, E.is_sym
    Bug, Inconclusive = E.Bug, E.Inconclusive

    # ------------------------------------------------------------ allocation
    @model('_Znwm', '_Znam', 'malloc')
    def m_new(st, a):
        n = a[0]
        if isinstance(n, Undef): raise Bug('undef', 'allocation with uninitialised size', eng._m(st))
        if n.__class__ is int:
            if n > eng.big_alloc: eng.throw_std(st, 'St9bad_alloc', 'allocation of %d bytes' % n)
            return st.alloc(n, 'heap', 'heap%d' % st.next_obj)
        n = eng.conc_try(st, n)
        if n.__class__ is int: return m_new(st, [n])
        if eng.decide(st, z3.UGT(n, eng.big_alloc)):
            eng.throw_std(st, 'St9bad_alloc', 'huge symbolic allocation')
        return st.alloc(n, 'heap', 'heap%d' % st.next_obj)
    @model('_ZnwmRKSt9nothrow_t')
    def m_new_nt(st, a): return m_new(st, a)
    @model('_ZdlPv', '_ZdaPv', '_ZdlPvm', '_ZdaPvm', 'free')
    def m_del(st, a):
        p = a[0]
        if isinstance(p, Undef): raise Bug('undef', 'delete of uninitialised pointer', eng._m(st))
        if isinstance(p, P) and p.obj:
            o = st.obj_w(p.obj)
            if not o.alive: raise Bug('doublefree', 'double free of ' + o.name, eng._m(st))
            if o.kind != 'heap': raise Bug('badfree', 'free of non-heap object ' + o.name, eng._m(st))
            if p.off.__class__ is not int or p.off != 0: raise Bug('badfree', 'free of interior pointer', eng._m(st))
            o.alive = False
    @model('calloc')
    def m_calloc(st, a):
        n = eng.concretize(st, a[0], 'calloc n') * eng.concretize(st, a[1], 'calloc size')
        p = st.alloc(n, 'heap', 'heap%d' % st.next_obj); o = st.mem[p.obj]
        for i in range(n): o.cells[i] = (1, 0)
        return p

    # ------------------------------------------------------------ exceptions ABI
    @model('__cxa_allocate_exception')
    def m_ae(st, a): return st.alloc(eng.concretize(st, a[0], 'exception size') + 0, 'heap', 'exc')
    @model('__cxa_free_exception')
    def m_fe(st, a): pass
    @model('__cxa_throw')
    def m_throw(st, a):
        ti = a[1]
        nm = eng.M.gname.get(ti.obj) if isinstance(ti, P) else None
        if nm is None: raise Inconclusive('unsupported', '__cxa_throw with unknown typeinfo %r' % (ti,))
        eng.do_throw(st, a[0], nm, a[2])
    @model('__cxa_begin_catch')
    def m_bc(st, a):
        st.caught.append(st.exc); st.env['uncaught'] = max(0, st.env.get('uncaught', 0) - 1); return a[0]
    @model('__cxa_end_catch')
    def m_ec(st, a):
        if st.caught: st.caught.pop()
    @model('__cxa_rethrow')
    def m_rethrow(st, a):
        if not st.caught: raise Bug('terminate', '__cxa_rethrow with no active exception', eng._m(st))
        st.exc = st.caught[-1]; st.env['uncaught'] = st.env.get('uncaught', 0) + 1; raise E.Throw()
    @model('__cxa_get_exception_ptr')
    def m_gep(st, a): return a[0]
    @model('_ZSt9terminatev', '__clang_call_terminate')
    def m_term(st, a): raise Bug('terminate', 'std::terminate called', eng._m(st))
    @model('abort')
    def m_abort(st, a): raise Bug('abort', 'abort() called', eng._m(st))
    @model('__assert_fail')
    def m_af(st, a): raise Bug('abort', 'assert failed: ' + eng.read_cstr(st, a[0]).decode('latin1'), eng._m(st))
    @model('_ZSt19uncaught_exceptionsv')
    def m_ue(st, a): return st.env.get('uncaught', 0)
    @model('_ZSt18uncaught_exceptionv')
    def m_ue1(st, a): return 1 if st.env.get('uncaught', 0) else 0
    @model('__cxa_atexit')
    def m_atexit(st, a): return 0
    @model('__cxa_guard_acquire')
    def m_ga(st, a):
        b = eng.load(st, a[0], 1)
        return 0 if (b.__class__ is int and b & 1) else 1
    @model('__cxa_guard_release')
    def m_gr(st, a): eng.store(st, a[0], 1, 1)
    @model('__cxa_guard_abort')
    def m_gab(st, a): pass
    @model('_ZSt21__glibcxx_assert_failPKciS0_S0_', '_ZSt18__replacement_assertPKciS0_S0_')
    def m_gaf(st, a):
        msg = ''
        try: msg = eng.read_cstr(st, a[3]).decode('latin1')
        except Exception: pass
        raise Bug('libassert', 'libstdc++ precondition violated (undefined behaviour): ' + msg, eng._m(st))
    @model('__cxa_pure_virtual')
    def m_pv(st, a): raise Bug('abort', 'pure virtual call', eng._m(st))

    def thrower(tname):
        def f(st, a):
            msg = ''
            if a and isinstance(a[0], P) and a[0].obj:
                try: msg = eng.read_cstr(st, a[0]).decode('latin1')
                except Exception: msg = '?'
            eng.throw_std(st, tname, msg)
        return f
    for fn, tn in (('_ZSt20__throw_length_errorPKc', 'St12length_error'), ('_ZSt17__throw_bad_allocv', 'St9bad_alloc'),
                   ('_ZSt28__throw_bad_array_new_lengthv', 'St20bad_array_new_length'), ('_ZSt19__throw_logic_errorPKc', 'St11logic_error'),
                   ('_ZSt24__throw_out_of_range_fmtPKcz', 'St12out_of_range'), ('_ZSt20__throw_out_of_rangePKc', 'St12out_of_range'),
                   ('_ZSt24__throw_invalid_argumentPKc', 'St16invalid_argument'), ('_ZSt21__throw_runtime_errorPKc', 'St13runtime_error'),
                   ('_ZSt25__throw_bad_function_callv', 'St17bad_function_call'), ('_ZSt20__throw_system_errori', 'St12system_error'),
                   ('_ZSt16__throw_bad_castv', 'St8bad_cast'), ('_ZSt27__throw_bad_optional_accessv', 'St19bad_optional_access'),
                   ('_ZSt21__throw_bad_exceptionv', 'St13bad_exception'), ('_ZSt19__throw_range_errorPKc', 'St11range_error'),
                   ('_ZSt22__throw_overflow_errorPKc', 'St14overflow_error'), ('_ZSt20__throw_domain_errorPKc', 'St12domain_error'),
                   ('_ZSt26__throw_bad_variant_accessPKc', 'St18bad_variant_access'), ('_ZSt26__throw_bad_variant_accessb', 'St18bad_variant_access')):
        M[fn] = thrower(tn)

    # std exception classes living in libstdc++.so: ctor/dtor/what are modelled (message kept aside)
    def exc_ctor(st, a):
        this = a[0]
        msgs = st.env.setdefault('exc_msgs', {})
        msg = ''
        if len(a) > 1 and isinstance(a[1], P) and a[1].obj:
            try:
                # either const char* or const std::string&
                msg = ('@%d:%r' % (a[1].obj, a[1].off))
            except Exception: pass
        msgs[this.obj] = msg
        # give the object a recognisable, initialised header (vptr slot + message slot)
        eng.store(st, this, 8, P(0, 0x5EC0));
        o = st.obj_r(this.obj)
        if o.size.__class__ is int and o.size >= to_int(this.off) + 16:
            eng.store(st, P(this.obj, this.off + 8), 8, a[1] if len(a) > 1 and isinstance(a[1], P) else NULL)
        return None
    def to_int(x): return x if x.__class__ is int else 0
    for cls in ('St16invalid_argument', 'St12length_error', 'St12out_of_range', 'St11logic_error', 'St13runtime_error', 'St12domain_error',
                'St11range_error', 'St14overflow_error', 'St15underflow_error'):
        n = cls[2:]
        for cd in ('C1', 'C2'):
            M['_ZN%s%sEPKc' % (cls, cd)] = exc_ctor
            M['_ZN%s%sERKNSt7__cxx1112basic_stringIcSt11char_traitsIcESaIcEEE' % (cls, cd)] = exc_ctor
            M['_ZN%s%sERKS_' % (cls, cd)] = exc_ctor
            M['_ZN%s%sEOS_' % (cls, cd)] = exc_ctor
        for d in ('D0', 'D1', 'D2'):
            M['_ZN%s%sEv' % (cls, d)] = lambda st, a: None
    for d in ('D0', 'D1', 'D2'):
        M['_ZNSt9exception%sEv' % d] = lambda st, a: None
        M['_ZNSt9bad_alloc%sEv' % d] = lambda st, a: None
        M['_ZNSt12system_error%sEv' % d] = lambda st, a: None
    @model('_ZNKSt13runtime_error4whatEv', '_ZNKSt11logic_error4whatEv', '_ZNKSt9exception4whatEv', '_ZNKSt9bad_alloc4whatEv')
    def m_what(st, a): return eng.const_str(st, 'what()', 'what')
    # std::system_error(int, const error_category&, const char*/string) - constructed inline from these pieces
    @model('_ZNSt3_V215system_categoryEv', '_ZNSt3_V216generic_categoryEv', '_ZSt15system_categoryv')
    def m_syscat(st, a):
        if 'syscat' not in st.env:
            st.env['syscat'] = st.alloc(16, 'global', 'system_category').obj
        return P(st.env['syscat'], 0)
    @model('_ZNSt12system_errorC1ESt10error_codeRKNSt7__cxx1112basic_stringIcSt11char_traitsIcESaIcEEE', '_ZNSt12system_errorC2ESt10error_codeRKNSt7__cxx1112basic_stringIcSt11char_traitsIcESaIcEEE',
           '_ZNSt12system_errorC2EiRKNSt3_V214error_categoryEPKc', '_ZNSt12system_errorC1EiRKNSt3_V214error_categoryEPKc',
           '_ZNSt12system_errorC2ESt10error_codePKc', '_ZNSt12system_errorC1ESt10error_codePKc',
           '_ZNSt12system_errorC2EiRKNSt3_V214error_categoryE', '_ZNSt12system_errorC1EiRKNSt3_V214error_categoryE',
           '_ZNSt12system_errorC2EiRKNSt3_V214error_categoryERKNSt7__cxx1112basic_stringIcSt11char_traitsIcESaIcEEE')
    def m_syserr(st, a): return exc_ctor(st, a[:1])

    # ------------------------------------------------------------ libc strings
    @model('strlen')
    def m_strlen(st, a):
        p = a[0]; i = 0
        while True:
            b = eng.load(st, P(p.obj, p.off + i), 1)
            if isinstance(b, Undef): raise Bug('undef', 'strlen reads an uninitialised byte', eng._m(st))
            if b.__class__ is int:
                if b == 0: return i
            elif eng.decide(st, E.bv(b, 8) == 0): return i      # a symbolic byte may be the terminator
            i += 1
            if i > 65536: raise Inconclusive('cap', 'unterminated string')
    @model('memcmp', 'bcmp')
    def m_memcmp(st, a):
        p, q = a[0], a[1]; n = eng.concretize(st, a[2], 'memcmp length')
        res = 0; sym = None
        xs = [eng.load(st, P(p.obj, simp(p.off + i) if is_sym(p.off) else p.off + i), 1) for i in range(n)]
        ys = [eng.load(st, P(q.obj, simp(q.off + i) if is_sym(q.off) else q.off + i), 1) for i in range(n)]
        for x, y in zip(xs, ys):
            if isinstance(x, Undef) or isinstance(y, Undef): raise Bug('undef', 'memcmp reads uninitialised byte', eng._m(st))
        r = z3.BitVecVal(0, 32); allc = True
        for x, y in reversed(list(zip(xs, ys))):
            if x.__class__ is int and y.__class__ is int:
                if x != y: r = z3.BitVecVal(E.mask(x - y, 32), 32)
                continue
            allc = False
            X, Y = z3.ZeroExt(24, bv(x, 8)), z3.ZeroExt(24, bv(y, 8))
            r = z3.If(X == Y, r, X - Y)
        return simp(r)
    @model('memchr')
    def m_memchr(st, a):
        p, c = a[0], a[1]; n = eng.concretize(st, a[2], 'memchr length')
        c = eng.concretize(st, c, 'memchr byte') & 0xff
        for i in range(n):
            b = eng.load(st, P(p.obj, p.off + i), 1)
            if isinstance(b, Undef): raise Bug('undef', 'memchr reads uninitialised byte', eng._m(st))
            if b.__class__ is int:
                if b == c: return P(p.obj, p.off + i)
                continue
            if eng.decide(st, b == c): return P(p.obj, p.off + i)
        return NULL
    @model('strcmp')
    def m_strcmp(st, a):
        x, y = eng.read_cstr(st, a[0]), eng.read_cstr(st, a[1])
        return E.mask((x > y) - (x < y), 32)
    @model('strncmp')
    def m_strncmp(st, a):
        n = eng.concretize(st, a[2], 'strncmp n')
        x, y = eng.read_cstr(st, a[0])[:n], eng.read_cstr(st, a[1])[:n]
        return E.mask((x > y) - (x < y), 32)
    @model('memcpy', 'memmove')
    def m_memcpy(st, a):
        n = eng.concretize(st, a[2], 'memcpy length'); eng.memcpy(st, a[0], a[1], n, 'memcpy'); return a[0]
    @model('isspace')
    def m_isspace(st, a):
        c = eng.concretize(st, a[0], 'isspace arg'); return int(c in (32, 9, 10, 11, 12, 13))

    # ------------------------------------------------------------ misc libstdc++ / libc
    @model('_ZNSt6chrono3_V212system_clock3nowEv')
    def m_now(st, a): return st.new_input('clock_now', 64, 'env')
    @model('_ZNSt8ios_base4InitC1Ev', '_ZNSt8ios_base4InitD1Ev')
    def m_iosinit(st, a): pass
    @model('__errno_location')
    def m_errno(st, a):
        if 'errno' not in st.env:
            p = st.alloc(4, 'global', 'errno'); st.mem[p.obj].cells[0] = (4, 0); st.env['errno'] = p.obj
        return P(st.env['errno'], 0)
    eng.ext_globals['__libc_single_threaded'] = lambda st, o: o.cells.__setitem__(0, (1, 1))

    # ------------------------------------------------------------ libstdc++.so pieces used by unordered_map / list / map
    @model('_ZNKSt8__detail20_Prime_rehash_policy14_M_need_rehashEmmm')
    def m_need_rehash(st, a):
        this, n_bkt, n_elt, n_ins = a[0], eng.concretize(st, a[1], 'bucket count'), eng.concretize(st, a[2], 'element count'), eng.concretize(st, a[3], 'insert count')
        # any growth policy is a valid one: grow when the load factor would exceed 1
        if n_elt + n_ins > n_bkt:
            nb = max(2 * n_bkt + 1, n_elt + n_ins, 13)
            eng.store(st, P(this.obj, this.off + 8), 8, nb)
            return Agg([1, nb])
        return Agg([0, 0])
    @model('_ZNSt8__detail15_List_node_base7_M_hookEPS0_')
    def m_list_hook(st, a):
        node, pos = a[0], a[1]          # insert node before pos: node->next = pos; node->prev = pos->prev; pos->prev->next = node; pos->prev = node
        prev = eng.load(st, P(pos.obj, pos.off + 8), 8)
        eng.store(st, node, 8, pos); eng.store(st, P(node.obj, node.off + 8), 8, prev)
        eng.store(st, prev, 8, node); eng.store(st, P(pos.obj, pos.off + 8), 8, node)
    @model('_ZNSt8__detail15_List_node_base9_M_unhookEv')
    def m_list_unhook(st, a):
        node = a[0]
        nxt = eng.load(st, node, 8); prev = eng.load(st, P(node.obj, node.off + 8), 8)
        eng.store(st, prev, 8, nxt); eng.store(st, P(nxt.obj, nxt.off + 8), 8, prev)

    # std::set / std::map (libstdc++.so's red-black tree primitives).  Balance and colours are unobservable through the container's
    # interface, so insertion links the node where the header-only caller decided (no rotations); only the root is blackened, because
    # _Rb_tree_decrement recognises the header as "red and parent->parent == self".  Node base: {color @0, parent @8, left @16, right @24}.
    def rb_get(st, n, off): return eng.load(st, P(n.obj, n.off + off), 8)
    def rb_set(st, n, off, v): eng.store(st, P(n.obj, n.off + off), 8, v)
    def rb_null(p): return isinstance(p, P) and p.obj == 0
    def rb_same(a_, b_): return isinstance(a_, P) and isinstance(b_, P) and a_.obj == b_.obj and a_.off == b_.off
    @model('_ZSt29_Rb_tree_insert_and_rebalancebPSt18_Rb_tree_node_baseS0_RS_')
    def m_rb_insert(st, a):
        left = eng.concretize(st, a[0], 'insert_left') & 1; x, p, h = a[1], a[2], a[3]
        rb_set(st, x, 8, p); rb_set(st, x, 16, NULL); rb_set(st, x, 24, NULL); eng.store(st, x, 4, 0)
        if left:
            rb_set(st, p, 16, x)
            if rb_same(p, h): rb_set(st, h, 8, x); rb_set(st, h, 24, x)
            elif rb_same(p, rb_get(st, h, 16)): rb_set(st, h, 16, x)
        else:
            rb_set(st, p, 24, x)
            if rb_same(p, rb_get(st, h, 24)): rb_set(st, h, 24, x)
        root = rb_get(st, h, 8)
        eng.store(st, root, 4, 1)
    def rb_increment(st, x):
        r = rb_get(st, x, 24)
        if not rb_null(r):
            x = r
            while True:
                l = rb_get(st, x, 16)
                if rb_null(l): return x
                x = l
        y = rb_get(st, x, 8)
        while rb_same(x, rb_get(st, y, 24)):
            x = y; y = rb_get(st, y, 8)
        if not rb_same(rb_get(st, x, 24), y): x = y
        return x
    def rb_decrement(st, x):
        col = eng.load(st, x, 4)
        par = rb_get(st, x, 8)
        if col == 0 and not rb_null(par) and rb_same(rb_get(st, par, 8), x): return rb_get(st, x, 24)
        l = rb_get(st, x, 16)
        if not rb_null(l):
            y = l
            while True:
                r = rb_get(st, y, 24)
                if rb_null(r): return y
                y = r
        y = par
        while rb_same(x, rb_get(st, y, 16)):
            x = y; y = rb_get(st, y, 8)
        return y
    @model('_ZSt18_Rb_tree_incrementPKSt18_Rb_tree_node_base', '_ZSt18_Rb_tree_incrementPSt18_Rb_tree_node_base')
    def m_rb_inc(st, a): return rb_increment(st, a[0])
    @model('_ZSt18_Rb_tree_decrementPKSt18_Rb_tree_node_base', '_ZSt18_Rb_tree_decrementPSt18_Rb_tree_node_base')
    def m_rb_dec(st, a): return rb_decrement(st, a[0])

    # ------------------------------------------------------------ libm (IEEE semantics via z3 FP / python floats)
    def fm(base, bits=64):
        return lambda st, a: eng.fmath(st, base, bits, a)
    for nme, base in (('floor', 'floor'), ('ceil', 'ceil'), ('trunc', 'trunc'), ('round', 'round'), ('rint', 'rint'), ('nearbyint', 'nearbyint'),
                      ('fabs', 'fabs'), ('sqrt', 'sqrt'), ('copysign', 'copysign'), ('fmin', 'minnum'), ('fmax', 'maxnum')):
        M[nme] = fm(base, 64); M[nme + 'f'] = fm(base, 32)
    def to_int_model(base, obits):
        def f(st, a):
            r = eng.fmath(st, base, 64, a)
            if isinstance(r, Undef): return Undef(obits)
            if r.__class__ is int:
                x = E.b2d(r)
                if x != x or abs(x) >= 2.0 ** (obits - 1): return st.fresh('unspecified_' + base, obits)
                return E.mask(int(x), obits)
            F = E.tofp(r, 64)
            inr = z3.And(z3.Not(z3.fpIsNaN(F)), z3.fpLT(F, z3.FPVal(2.0 ** (obits - 1), z3.Float64())), z3.fpGEQ(F, z3.FPVal(-(2.0 ** (obits - 1)), z3.Float64())))
            return E.simp(z3.If(inr, z3.fpToSBV(z3.RTZ(), F, z3.BitVecSort(obits)), st.fresh('unspecified_' + base, obits)))
        return f
    M['llround'] = M['lround'] = to_int_model('round', 64)
    M['llrint'] = M['lrint'] = to_int_model('rint', 64)
    @model('fmod')
    def m_fmod(st, a): return eng.fbin('frem', 64, a[0], a[1])

    # ------------------------------------------------------------ harness API
    def nm(st, p):
        try: return eng.read_cstr(st, p).decode()
        except Exception: return 'in'
    @model('verif_u8')
    def v_u8(st, a): return st.new_input(nm(st, a[0]), 8)
    @model('verif_u16')
    def v_u16(st, a): return st.new_input(nm(st, a[0]), 16)
    @model('verif_u32')
    def v_u32(st, a): return st.new_input(nm(st, a[0]), 32)
    @model('verif_u64')
    def v_u64(st, a): return st.new_input(nm(st, a[0]), 64)
    @model('verif_f64')
    def v_f64(st, a): return st.new_input(nm(st, a[0]), 64)
    @model('verif_range_u32', 'verif_range_u64')
    def v_range(st, a):
        lo, hi = eng.concretize(st, a[0], 'range lo'), eng.concretize(st, a[1], 'range hi')
        bits = 32 if lo < (1 << 32) and hi < (1 << 32) and eng._cur_callee.endswith('u32') else 64
        v = st.new_input(nm(st, a[2]), bits)
        if v.__class__ is int:          # concrete mode
            if not (lo <= v <= hi): raise E.Inconclusive('harness', 'recorded input outside its declared range')
            return v
        st.var_ranges = dict(st.var_ranges); st.var_ranges[v.get_id()] = (lo, hi)      # declared range, also used by the integer encodings
        st.pc.append(z3.And(z3.UGE(v, lo), z3.ULE(v, hi)))
        return v
    @model('verif_bytes')
    def v_bytes(st, a):
        p = a[0]; n = eng.concretize(st, a[1], 'verif_bytes n'); name = nm(st, a[2])
        o = eng.obj_of(st, p, 'verif_bytes', write=True); eng.bounds(st, o, p.off, n, 'verif_bytes')
        off = E.to_signed(p.off, 64); eng.kill_overlaps(o, off, n)
        for i in range(n): o.cells[off + i] = (1, st.new_input('%s[%d]' % (name, i), 8))
    @model('verif_assume')
    def v_assume(st, a):
        c = a[0]
        if isinstance(c, Undef): raise Bug('undef', 'verif_assume on uninitialised value', eng._m(st))
        if not eng.assume(st, c if c.__class__ is int or isinstance(c, z3.BoolRef) else (c != 0)):
            raise E.PathEnd(('assume-false', None))
    @model('verif_assert')
    def v_assert(st, a):
        c = a[0]; msg = nm(st, a[1])
        flt = (getattr(eng, '_job', None) or {}).get('assert_filter')
        if flt and not re.search(flt, msg):
            # an assertion of a shared harness body that states ANOTHER property (e.g. the C09 order assertions in a C07 run): not evaluated here,
            # and both outcomes stay on the path, so that this property's later assertions are still reached when the other one would fail
            st.env['asserts_other'] = st.env.get('asserts_other', 0) + 1
            return
        st.env['asserts'] = st.env.get('asserts', 0) + 1
        if isinstance(c, Undef): raise Bug('undef', 'verif_assert on uninitialised value: ' + msg, eng._m(st))
        if eng.env_witness and msg in eng.env_witness:
            raise Bug('witness', msg, eng._m(st))
        bad = (c == 0) if c.__class__ is not int and not isinstance(c, z3.BoolRef) else (z3.Not(c) if isinstance(c, z3.BoolRef) else (not c))
        if eng.assert_solver is not None and E.is_sym(bad):
            eng.assert_solver(st, E.boolv(E.simp(bad)) if E.is_sym(E.simp(bad)) else E.simp(bad), msg)
        else:
            eng.check_bug(st, bad, 'assert', msg)
        # the assertion holds on every model of this path: keep it as a lemma for later queries
        ok = E.simp(z3.Not(E.boolv(bad))) if E.is_sym(bad) else None
        if ok is not None and E.is_sym(ok): st.pc.append(E.boolv(ok))
    @model('verif_reach')
    def v_reach(st, a): st.log.append(('reach', nm(st, a[0])))
    @model('verif_note')
    def v_note(st, a): st.log.append(('note', nm(st, a[0]), a[1]))
    @model('verif_hook')
    def v_hook(st, a):
        h = getattr(eng, 'hooks', {}).get(nm(st, a[0]))
        if h: h(st)
    @model('verif_fail')
    def v_fail(st, a): raise Bug('assert', nm(st, a[0]), eng._m(st))
    @model('verif_is_symbolic')
    def v_issym(st, a): return 1
    @model('verif_concrete')
    def v_conc(st, a): return eng.concretize(st, a[0], 'verif_concrete')
    eng.env_witness = None
    eng.assert_solver = None
