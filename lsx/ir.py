"""ir.py - parser for clang-14 textual LLVM IR (typed pointers).

Parses a module into types, globals, declarations and functions.  Function
bodies are decoded lazily (on first call) into tuples with pre-parsed
operands, so that the executor (engine.py) does no text processing at run time.
"""
import re, struct

# --------------------------------------------------------------------------- types
class T: pass
class Void(T):
    def __repr__(s): return 'void'
class Int(T):
    __slots__ = ('bits',)
    def __init__(s, bits): s.bits = bits
    def __repr__(s): return 'i%d' % s.bits
class Flt(T):
    __slots__ = ('kind', 'bits')
    def __init__(s, kind): s.kind = kind; s.bits = {'float': 32, 'double': 64, 'half': 16, 'x86_fp80': 80, 'fp128': 128}[kind]
    def __repr__(s): return s.kind
class Ptr(T):
    __slots__ = ('to',)
    def __init__(s, to=None): s.to = to
    def __repr__(s): return 'ptr'
class Arr(T):
    __slots__ = ('n', 'el')
    def __init__(s, n, el): s.n, s.el = n, el
    def __repr__(s): return '[%d x %r]' % (s.n, s.el)
class Vec(T):
    __slots__ = ('n', 'el')
    def __init__(s, n, el): s.n, s.el = n, el
    def __repr__(s): return '<%d x %r>' % (s.n, s.el)
class Struct(T):
    __slots__ = ('els', 'packed', '_lay')
    def __init__(s, els, packed=False): s.els, s.packed, s._lay = els, packed, None
    def __repr__(s): return '{%s}' % ','.join(map(repr, s.els))
class Named(T):
    __slots__ = ('name',)
    def __init__(s, name): s.name = name
    def __repr__(s): return '%' + s.name
class Func(T):
    __slots__ = ('ret', 'args', 'va')
    def __init__(s, ret, args, va): s.ret, s.args, s.va = ret, args, va
    def __repr__(s): return 'fn'
class Opaque(T): pass
class Meta(T): pass
class Label(T): pass
class Token(T): pass

# --------------------------------------------------------------------------- values
class P:
    """pointer = (object id, byte offset); offset is an int or a z3 64-bit term"""
    __slots__ = ('obj', 'off')
    def __init__(s, obj, off): s.obj, s.off = obj, off
    def __repr__(s): return 'P(%s,%s)' % (s.obj, s.off)
NULL = P(0, 0)
class FnPtr:
    __slots__ = ('name',)
    def __init__(s, name): s.name = name
    def __repr__(s): return 'Fn(%s)' % s.name
class Agg:
    __slots__ = ('vals',)
    def __init__(s, vals): s.vals = list(vals)
    def __repr__(s): return 'Agg%r' % (s.vals,)
class Undef:
    __slots__ = ('bits',)
    def __init__(s, bits): s.bits = bits
    def __repr__(s): return 'undef%d' % s.bits
class Reg:
    __slots__ = ('n',)
    def __init__(s, n): s.n = n
    def __repr__(s): return '%' + s.n
class CExpr:
    """constant expression that could not be folded at decode time (kept symbolic until state exists)"""
    __slots__ = ('fn',)
    def __init__(s, fn): s.fn = fn

class Function:
    def __init__(s, name, ret, params, va, attrs, lines):
        s.name, s.ret, s.params, s.va, s.attrs = name, ret, params, va, attrs
        s.lines = lines
        s.blocks = None      # list of Block after decode
        s.bidx = None
        s.ninstr = 0
class Block:
    __slots__ = ('label', 'phis', 'ins')
    def __init__(s, label): s.label, s.phis, s.ins = label, [], []

WS = ' \t'
def skipws(s, p):
    n = len(s)
    while p < n and s[p] in WS: p += 1
    return p
IDENT = re.compile(r'[%@](?:"(?:[^"\\]|\\.)*"|[-a-zA-Z$._0-9]+)')
RE_INT = re.compile(r'i(\d+)')
RE_ARR = re.compile(r'\[\s*(\d+)\s+x\s+')
RE_VEC = re.compile(r'<\s*(\d+)\s+x\s+')
RE_WORD = re.compile(r'[a-z_]+')
RE_ALIGN = re.compile(r'align\s+\d+')
RE_NUM = re.compile(r'0x[KLMHR]?[0-9A-Fa-f]+|-?\d+(\.\d+)?(e[+-]?\d+)?')
ATTR_WORDS = set('''noalias nocapture noundef nonnull readonly readnone writeonly returned signext zeroext inreg
 immarg nofree nest swiftself swifterror'''.split())
LINKAGE = re.compile(r'(?:private|internal|available_externally|linkonce_odr|linkonce|weak_odr|weak|common|appending|extern_weak|external|dso_local|dso_preemptable|hidden|protected|default|local_unnamed_addr|unnamed_addr|thread_local(?:\([a-z]+\))?|fastcc|ccc|coldcc|noundef|nonnull|zeroext|signext|noalias|dereferenceable\(\d+\)|dereferenceable_or_null\(\d+\)|align \d+)(?![a-zA-Z_0-9])')

def unq(nm):
    if nm.startswith('"'):
        nm = nm[1:-1]
        if '\\' in nm: nm = re.sub(r'\\([0-9A-Fa-f]{2})', lambda m: chr(int(m.group(1), 16)), nm)
    return nm

class Module:
    def __init__(s):
        s.named = {}; s.globals = {}; s.funcs = {}; s.decls = {}; s.aliases = {}
        s.gid = {}; s.gname = {}      # global name <-> fixed object id
        s.tcache = {}
        s.const_hook = None

    # ---------------------------------------------------------------- type layout
    def resolve(s, t):
        while t.__class__ is Named:
            t = s.named.get(t.name) or Opaque()
        return t
    def sizeof(s, t):
        t = s.resolve(t)
        c = t.__class__
        if c is Int:
            b = (t.bits + 7) // 8; p = 1
            while p < b: p *= 2
            return p
        if c is Flt: return {'float': 4, 'double': 8, 'x86_fp80': 16, 'half': 2, 'fp128': 16}[t.kind]
        if c is Ptr or c is Func: return 8
        if c is Arr or c is Vec: return t.n * s.sizeof(t.el)
        if c is Struct: return s.layout(t)[0]
        if c is Opaque or c is Void: return 0
        raise Exception('sizeof %r' % t)
    def alignof(s, t):
        t = s.resolve(t); c = t.__class__
        if c is Int: return min(s.sizeof(t), 8) if t.bits <= 64 else 16
        if c is Flt: return s.sizeof(t)
        if c is Ptr or c is Func: return 8
        if c is Arr: return s.alignof(t.el)
        if c is Vec: return min(16, s.sizeof(t))
        if c is Struct:
            return s.layout(t)[2]
        return 1
    def layout(s, t):
        """(size, [field offsets], align)"""
        if t._lay is None:
            off = 0; al = 1; offs = []
            for e in t.els:
                a = 1 if t.packed else s.alignof(e)
                al = max(al, a)
                off = (off + a - 1) // a * a
                offs.append(off)
                off += s.sizeof(e)
            t._lay = ((off + al - 1) // al * al, offs, al)
        return t._lay
    def field_offset(s, t, idx):
        return s.layout(s.resolve(t))[1][idx]

    # ---------------------------------------------------------------- type parsing
    def parse_type(s, txt, p):
        p = skipws(txt, p)
        ch = txt[p]
        t = None
        if ch == 'i' and txt[p + 1].isdigit():
            m = RE_INT.match(txt, p); t = Int(int(m.group(1))); p = m.end()
        elif ch == '%':
            m = IDENT.match(txt, p); t = Named(unq(m.group(0)[1:])); p = m.end()
        elif txt.startswith('void', p): t = Void(); p += 4
        elif txt.startswith('double', p): t = Flt('double'); p += 6
        elif txt.startswith('float', p): t = Flt('float'); p += 5
        elif txt.startswith('half', p): t = Flt('half'); p += 4
        elif txt.startswith('x86_fp80', p): t = Flt('x86_fp80'); p += 8
        elif txt.startswith('fp128', p): t = Flt('fp128'); p += 5
        elif txt.startswith('metadata', p): t = Meta(); p += 8
        elif txt.startswith('label', p): t = Label(); p += 5
        elif txt.startswith('token', p): t = Token(); p += 5
        elif txt.startswith('opaque', p): t = Opaque(); p += 6
        elif txt.startswith('ptr', p) and not txt[p + 3:p + 4].isalnum(): t = Ptr(); p += 3
        elif ch == '[':
            m = RE_ARR.match(txt, p)
            n = int(m.group(1)); el, p = s.parse_type(txt, m.end()); p = skipws(txt, p)
            assert txt[p] == ']', txt[p:p + 20]; p += 1; t = Arr(n, el)
        elif ch == '{' or txt.startswith('<{', p):
            packed = ch == '<'
            p += 2 if packed else 1
            els = []
            p = skipws(txt, p)
            if txt[p] != '}':
                while True:
                    e, p = s.parse_type(txt, p); els.append(e); p = skipws(txt, p)
                    if txt[p] == ',': p += 1; continue
                    break
            assert txt[p] == '}', txt[p:p + 20]; p += 1
            if packed: assert txt[p] == '>'; p += 1
            t = Struct(els, packed)
        elif ch == '<':
            m = RE_VEC.match(txt, p)
            n = int(m.group(1)); el, p = s.parse_type(txt, m.end()); p = skipws(txt, p)
            assert txt[p] == '>'; p += 1; t = Vec(n, el)
        else:
            raise Exception('type? ' + txt[p:p + 60])
        n = len(txt)
        while True:
            q = skipws(txt, p)
            if q < n and txt[q] == '*':
                t = Ptr(t); p = q + 1; continue
            if q < n and txt[q] == '(':
                q += 1; args = []; va = False
                q = skipws(txt, q)
                if txt[q] != ')':
                    while True:
                        q = skipws(txt, q)
                        if txt.startswith('...', q): va = True; q += 3
                        else:
                            a, q = s.parse_type(txt, q); args.append(a)
                        q = skipws(txt, q)
                        if txt[q] == ',': q += 1; continue
                        break
                assert txt[q] == ')'; q += 1
                t = Func(t, args, va); p = q; continue
            if txt.startswith('addrspace', q):
                p = txt.index(')', q) + 1; continue
            break
        return t, p

    def skip_attrs(s, txt, p):
        while True:
            p = skipws(txt, p)
            m = RE_WORD.match(txt, p)
            if not m: return p
            w = m.group(0)
            if w in ATTR_WORDS: p = m.end(); continue
            if w == 'align':
                m2 = RE_ALIGN.match(txt, p)
                if m2: p = m2.end(); continue
            if w in ('dereferenceable', 'dereferenceable_or_null', 'sret', 'byval', 'byref', 'preallocated', 'inalloca', 'elementtype', 'align'):
                q = m.end()
                if q < len(txt) and txt[q] == '(':
                    depth = 0
                    while True:
                        if txt[q] == '(': depth += 1
                        elif txt[q] == ')':
                            depth -= 1
                            if depth == 0: q += 1; break
                        q += 1
                p = q; continue
            return p

    def parse_params(s, txt, p):
        assert txt[p] == '('; p += 1
        params = []; va = False
        p = skipws(txt, p)
        if txt[p] == ')': return params, va, p + 1
        while True:
            p = skipws(txt, p)
            if txt.startswith('...', p): va = True; p += 3
            else:
                t, p = s.parse_type(txt, p); p = s.skip_attrs(txt, p)
                nm = None
                if p < len(txt) and txt[p] == '%':
                    m = IDENT.match(txt, p); nm = unq(m.group(0)[1:]); p = m.end()
                params.append((t, nm))
            p = skipws(txt, p)
            if txt[p] == ',': p += 1; continue
            break
        assert txt[p] == ')', txt[p:p + 30]
        return params, va, p + 1

    # ---------------------------------------------------------------- module
    def parse(s, text):
        lines = text.split('\n')
        for ln in lines:
            if ln.startswith('%') and ' = type ' in ln:
                m = IDENT.match(ln); nm = unq(m.group(0)[1:])
                rest = ln[ln.index(' = type ') + 8:]
                t, _ = s.parse_type(rest, 0)
                s.named[nm] = t
        i = 0; n = len(lines)
        while i < n:
            ln = lines[i]
            if ln.startswith('@'):
                m = IDENT.match(ln); nm = unq(m.group(0)[1:])
                rest = ln[m.end():]
                rest = rest[rest.index('=') + 1:]
                p = 0; external = False
                while True:
                    p = skipws(rest, p)
                    mm = LINKAGE.match(rest, p)
                    if mm and mm.end() > p:
                        if mm.group(0) in ('external', 'extern_weak'): external = True
                        p = mm.end(); continue
                    break
                mm = re.compile(r'(global|constant)\s+').match(rest, p)
                if not mm:
                    ma = re.compile(r'alias\s+').match(rest, p)
                    if ma:
                        t, q = s.parse_type(rest, ma.end()); q = skipws(rest, q) + 1
                        s.aliases[nm] = rest[q:].strip()
                    i += 1; continue
                is_const = mm.group(1) == 'constant'
                p = mm.end()
                t, p = s.parse_type(rest, p)
                init = None
                if not external:
                    init = rest[p:]
                    init = re.sub(r',\s*(align \d+|comdat(\([^)]*\))?|section "[^"]*"|!dbg ![0-9]+)\s*', ' ', init).strip()
                s.globals[nm] = (t, init, is_const)
            elif ln.startswith('declare '):
                txt = ln[8:]; p = 0
                while True:
                    p = skipws(txt, p)
                    mm = LINKAGE.match(txt, p)
                    if mm and mm.end() > p: p = mm.end(); continue
                    break
                p = s.skip_attrs(txt, p)
                rt, p = s.parse_type(txt, p); p = skipws(txt, p)
                m = IDENT.match(txt, p); nm = unq(m.group(0)[1:]); p = m.end()
                params, va, p = s.parse_params(txt, p)
                s.decls[nm] = (rt, [t for t, _ in params], va)
            elif ln.startswith('define '):
                txt = ln[7:]; p = 0
                while True:
                    p = skipws(txt, p)
                    mm = LINKAGE.match(txt, p)
                    if mm and mm.end() > p: p = mm.end(); continue
                    break
                p = s.skip_attrs(txt, p)
                rt, p = s.parse_type(txt, p); p = skipws(txt, p)
                m = IDENT.match(txt, p); nm = unq(m.group(0)[1:]); p = m.end()
                params, va, p = s.parse_params(txt, p)
                cnt = 0; ps = []
                for t, pn in params:
                    if pn is None: pn = str(cnt); cnt += 1
                    elif pn.isdigit(): cnt = int(pn) + 1
                    ps.append((t, pn))
                i += 1; j = i
                while lines[j] != '}': j += 1
                f = Function(nm, rt, ps, va, txt[p:], (str(cnt), lines[i:j]))
                s.funcs[nm] = f
                i = j
            i += 1
        # fixed ids for globals
        k = 1
        for nm in s.globals:
            s.gid[nm] = k; s.gname[k] = nm; k += 1
        s.first_dyn_obj = k + 16
        # resolve aliases to functions/globals
        for a, tgt in list(s.aliases.items()):
            m = re.search(r'@("(?:[^"\\]|\\.)*"|[-a-zA-Z$._0-9]+)', tgt)
            s.aliases[a] = unq(m.group(1)) if m else None

    def lookup_func(s, nm):
        seen = 0
        while nm in s.aliases and nm not in s.funcs and seen < 8:
            nm = s.aliases[nm]; seen += 1
        return nm

    # ---------------------------------------------------------------- constants / operands
    def global_value(s, nm):
        nm = unq(nm)
        if nm in s.aliases and nm not in s.funcs and nm not in s.globals: nm = s.lookup_func(nm)
        if nm in s.funcs or nm in s.decls: return FnPtr(nm)
        if nm in s.gid: return P(s.gid[nm], 0)
        raise Exception('unknown global @' + nm)

    def operand(s, t, txt, p):
        """parse an operand of type t at txt[p:]; returns (value-or-Reg, p)"""
        p = skipws(txt, p)
        ch = txt[p]
        if ch == '%':
            m = IDENT.match(txt, p)
            return Reg(unq(m.group(0)[1:])), m.end()
        if ch == '@':
            m = IDENT.match(txt, p)
            return s.global_value(m.group(0)[1:]), m.end()
        rt = s.resolve(t)
        for kw in ('null', 'undef', 'poison', 'zeroinitializer', 'true', 'false', 'none'):
            if txt.startswith(kw, p) and not txt[p + len(kw):p + len(kw) + 1].isalnum():
                p2 = p + len(kw)
                if kw == 'true': return 1, p2
                if kw == 'false': return 0, p2
                if kw in ('undef', 'poison'): return s.undef_of(rt), p2
                return s.zero_of(rt), p2
        m = RE_NUM.match(txt, p)
        if m and not txt.startswith('getelementptr', p):
            tok = m.group(0)
            if rt.__class__ is Flt:
                if tok.startswith('0x'):
                    if tok[2] in 'KLMHR': raise Exception('long double constant unsupported')
                    bits = int(tok[2:], 16)
                    if rt.kind == 'float':
                        bits = struct.unpack('<I', struct.pack('<f', struct.unpack('<d', struct.pack('<Q', bits))[0]))[0]
                    return bits, m.end()
                f = float(tok)
                return (struct.unpack('<Q', struct.pack('<d', f))[0] if rt.kind == 'double' else struct.unpack('<I', struct.pack('<f', f))[0]), m.end()
            return int(tok) & ((1 << rt.bits) - 1), m.end()
        if ch in '{[' or txt.startswith('<{', p) or (ch == '<' and rt.__class__ is Vec):
            close = {'{': '}', '[': ']', '<': '}' if txt.startswith('<{', p) else '>'}[ch]
            q = p + (2 if txt.startswith('<{', p) else 1); vals = []
            q = skipws(txt, q)
            if txt[q] != close:
                while True:
                    et, q = s.parse_type(txt, q); ev, q = s.operand(et, txt, q); vals.append(ev); q = skipws(txt, q)
                    if txt[q] == ',': q += 1; continue
                    break
            assert txt[q] == close; q += 1
            if txt.startswith('<{', p): assert txt[q] == '>'; q += 1
            return Agg(vals), q
        if ch == 'c' and txt[p + 1] == '"':
            q = p + 2; bs = []
            while txt[q] != '"':
                if txt[q] == '\\': bs.append(int(txt[q + 1:q + 3], 16)); q += 3
                else: bs.append(ord(txt[q])); q += 1
            return Agg(bs), q + 1
        m = re.compile(r'(getelementptr|bitcast|ptrtoint|inttoptr|addrspacecast|trunc|zext|sext|add|sub|mul|and|or|xor|shl|lshr|ashr|icmp|select)\b').match(txt, p)
        if m:
            return s.const_expr(m.group(1), txt, m.end())
        raise Exception('operand? %r at %s' % (t, txt[p:p + 80]))

    def const_expr(s, op, txt, q):
        H = s.const_hook
        q = skipws(txt, q)
        if op == 'getelementptr':
            mm = re.compile(r'(inbounds\s+)?').match(txt, q); q = mm.end()
            assert txt[q] == '('; q += 1
            bt, q = s.parse_type(txt, q); q = skipws(txt, q); assert txt[q] == ','; q += 1
            pt, q = s.parse_type(txt, q); base, q = s.operand(pt, txt, q)
            idx = []
            while True:
                q = skipws(txt, q)
                if txt[q] == ',':
                    q = skipws(txt, q + 1)
                    if txt.startswith('inrange', q): q += 7
                    it, q = s.parse_type(txt, q); iv, q = s.operand(it, txt, q); idx.append((s.resolve(it).bits, iv)); continue
                break
            assert txt[q] == ')'; q += 1
            coff, terms = s.gep_plan(bt, idx)
            assert not terms
            return H.gep(base, coff, ()), q
        if op in ('bitcast', 'ptrtoint', 'inttoptr', 'addrspacecast', 'trunc', 'zext', 'sext'):
            assert txt[q] == '('; q += 1
            st_, q = s.parse_type(txt, q); sv, q = s.operand(st_, txt, q)
            q = skipws(txt, q); assert txt.startswith('to', q); q += 2
            dt, q = s.parse_type(txt, q); q = skipws(txt, q); assert txt[q] == ')'; q += 1
            return H.cast(op, sv, s.resolve(st_), s.resolve(dt)), q
        if op == 'icmp':
            mm = re.compile(r'\s*\(?\s*(\w+)\s*\(?').match(txt, q)
            # form: icmp pred (T a, T b)
            mm = re.compile(r'(\w+)\s*\(').match(txt, q); pred = mm.group(1); q = mm.end()
            t1, q = s.parse_type(txt, q); a, q = s.operand(t1, txt, q); q = skipws(txt, q) + 1
            t2, q = s.parse_type(txt, q); b, q = s.operand(t2, txt, q); q = skipws(txt, q); assert txt[q] == ')'; q += 1
            r1 = s.resolve(t1)
            return H.icmp(pred, r1.bits if r1.__class__ is Int else 64, a, b), q
        if op == 'select':
            assert txt[q] == '('; q += 1
            t0, q = s.parse_type(txt, q); c, q = s.operand(t0, txt, q); q = skipws(txt, q) + 1
            t1, q = s.parse_type(txt, q); a, q = s.operand(t1, txt, q); q = skipws(txt, q) + 1
            t2, q = s.parse_type(txt, q); b, q = s.operand(t2, txt, q); q = skipws(txt, q); assert txt[q] == ')'; q += 1
            return (a if c else b), q
        # binary
        mm = re.compile(r'((?:nuw|nsw|exact)\s+)*\(').match(txt, q); q = mm.end()
        t1, q = s.parse_type(txt, q); a, q = s.operand(t1, txt, q); q = skipws(txt, q) + 1
        t2, q = s.parse_type(txt, q); b, q = s.operand(t2, txt, q); q = skipws(txt, q); assert txt[q] == ')'; q += 1
        return H.binop(None, op, 0, s.resolve(t1).bits, a, b), q

    def zero_of(s, rt):
        rt = s.resolve(rt); c = rt.__class__
        if c is Struct: return Agg([s.zero_of(e) for e in rt.els])
        if c is Arr or c is Vec: return Agg([s.zero_of(rt.el) for _ in range(rt.n)])
        if c is Ptr or c is Func: return NULL
        return 0
    def undef_of(s, rt):
        rt = s.resolve(rt); c = rt.__class__
        if c is Struct: return Agg([s.undef_of(e) for e in rt.els])
        if c is Arr or c is Vec: return Agg([s.undef_of(rt.el) for _ in range(rt.n)])
        if c is Ptr or c is Func: return Undef(64)
        if c is Int or c is Flt: return Undef(rt.bits)
        return Undef(0)

    def gep_plan(s, bt, idx):
        """idx: list of (bits, operand).  Returns (const byte offset, [(scale, bits, Reg)])"""
        cur = bt; first = True; coff = 0; terms = []
        for bits, iv in idx:
            if first:
                sz = s.sizeof(cur); first = False
            else:
                r = s.resolve(cur)
                if r.__class__ is Struct:
                    coff += s.layout(r)[1][iv]; cur = r.els[iv]; continue
                cur = r.el; sz = s.sizeof(cur)
            if iv.__class__ is int:
                sv = iv - (1 << bits) if iv >> (bits - 1) else iv
                coff += sv * sz
            else:
                terms.append((sz, bits, iv))
        return coff, terms

    # ---------------------------------------------------------------- function decode
    def decode(s, f):
        if f.blocks is not None: return f
        first_label, lines = f.lines
        blocks = []; cur = Block(first_label); blocks.append(cur)
        raw = {cur.label: []}
        started = False
        for l in lines:
            m = re.match(r'^([-a-zA-Z$._0-9]+|"[^"]*"):', l)
            if m:
                lab = unq(m.group(1))
                if not started and not raw[cur.label]:
                    blocks.pop(); del raw[cur.label]
                cur = Block(lab); blocks.append(cur); raw[lab] = []
                continue
            ls = l.strip()
            if not ls or ls.startswith(';'): continue
            started = True
            lst = raw[cur.label]
            prev = lst[-1] if lst else ''
            in_switch = prev.startswith('switch ') and prev.count('[') > prev.count(']')
            if lst and (ls.startswith(('to label', 'catch ', 'cleanup', 'filter ')) or in_switch):
                lst[-1] = prev + ' ' + ls
            else:
                lst.append(ls)
        f.bidx = {b.label: i for i, b in enumerate(blocks)}
        n = 0
        for b in blocks:
            for l in raw[b.label]:
                l = re.sub(r'(,\s*![a-zA-Z_.0-9]+ ![0-9]+)+\s*$', '', l)
                try:
                    ins = s.decode_ins(f, l)
                except Exception as e:
                    raise Exception('decode error in @%s: %s : %r' % (f.name, l, e))
                if ins[0] == 'phi': b.phis.append(ins[1:])
                else: b.ins.append(ins)
                n += 1
        f.blocks = blocks; f.ninstr = n; f.lines = None
        return f

    def tv(s, txt, p=0):
        t, p = s.parse_type(txt, p); p = s.skip_attrs(txt, p)
        v, p = s.operand(t, txt, p)
        return t, v, p

    def lab(s, f, txt):
        txt = txt.strip()
        if txt.startswith('%'): txt = txt[1:]
        return f.bidx[unq(txt)]

    def decode_ins(s, f, l):
        dst = None
        m = re.match(r'^(%(?:"(?:[^"\\]|\\.)*"|[-a-zA-Z$._0-9]+)) = (.*)$', l)
        if m: dst, l = unq(m.group(1)[1:]), m.group(2)
        sp = l.find(' ')
        op = l if sp < 0 else l[:sp]
        rest = '' if sp < 0 else l[sp + 1:].strip()
        R = s.resolve
        if op in ('add', 'sub', 'mul', 'udiv', 'sdiv', 'urem', 'srem', 'shl', 'lshr', 'ashr', 'and', 'or', 'xor'):
            fm = re.match(r'^((?:nuw|nsw|exact)\s+)*', rest); flags = fm.group(0); rest = rest[fm.end():]
            t, a, p = s.tv(rest); p = skipws(rest, p); b, p = s.operand(t, rest, p + 1)
            rt = R(t)
            if rt.__class__ is Vec: return ('unsupported', 'vector ' + op)
            return ('bin', dst, op, 'nsw' in flags, rt.bits, a, b)
        if op in ('fadd', 'fsub', 'fmul', 'fdiv', 'frem'):
            rest = re.sub(r'^((?:fast|nnan|ninf|nsz|arcp|contract|afn|reassoc)\s+)*', '', rest)
            t, a, p = s.tv(rest); p = skipws(rest, p); b, p = s.operand(t, rest, p + 1)
            return ('fbin', dst, op, R(t).bits, a, b)
        if op == 'fneg':
            rest = re.sub(r'^((?:fast|nnan|ninf|nsz|arcp|contract|afn|reassoc)\s+)*', '', rest)
            t, a, p = s.tv(rest)
            return ('fneg', dst, R(t).bits, a)
        if op == 'icmp':
            pred, r2 = rest.split(None, 1)
            t, a, p = s.tv(r2); p = skipws(r2, p); b, p = s.operand(t, r2, p + 1)
            rt = R(t)
            return ('icmp', dst, pred, rt.bits if rt.__class__ is Int else 64, a, b)
        if op == 'fcmp':
            rest = re.sub(r'^((?:fast|nnan|ninf|nsz|arcp|contract|afn|reassoc)\s+)*', '', rest)
            pred, r2 = rest.split(None, 1)
            t, a, p = s.tv(r2); p = skipws(r2, p); b, p = s.operand(t, r2, p + 1)
            return ('fcmp', dst, pred, R(t).bits, a, b)
        if op in ('trunc', 'zext', 'sext', 'bitcast', 'ptrtoint', 'inttoptr', 'fptosi', 'fptoui', 'sitofp', 'uitofp', 'fpext', 'fptrunc', 'addrspacecast'):
            t, a, p = s.tv(rest); p = skipws(rest, p); assert rest.startswith('to', p); dt, p = s.parse_type(rest, p + 2)
            return ('cast', dst, op, R(t), R(dt), a)
        if op == 'select':
            rest = re.sub(r'^((?:fast|nnan|ninf|nsz|arcp|contract|afn|reassoc)\s+)*', '', rest)
            ct, c, p = s.tv(rest); p = skipws(rest, p); at, a, p = s.tv(rest, p + 1); p = skipws(rest, p); bt, b, p = s.tv(rest, p + 1)
            ra = R(at)
            bits = ra.bits if ra.__class__ in (Int, Flt) else (64 if ra.__class__ in (Ptr, Func) else 0)
            return ('select', dst, c, a, b, bits)
        if op == 'freeze':
            t, a, p = s.tv(rest); return ('freeze', dst, a)
        if op == 'alloca':
            t, p = s.parse_type(rest, 0)
            cnt = None
            p = skipws(rest, p)
            if p < len(rest) and rest[p] == ',':
                q = skipws(rest, p + 1)
                if not rest.startswith('align', q) and not rest.startswith('addrspace', q):
                    ct, cnt, p = s.tv(rest, q)
            return ('alloca', dst, max(1, s.sizeof(t)), cnt)
        if op == 'load':
            rest = re.sub(r'^(atomic\s+)?(volatile\s+)?', '', rest)
            t, p = s.parse_type(rest, 0); p = skipws(rest, p); pt, a, p = s.tv(rest, p + 1)
            rt = R(t)
            kind = 'p' if rt.__class__ in (Ptr, Func) else ('b' if rt.__class__ is Int and rt.bits == 1 else ('a' if rt.__class__ in (Struct, Arr, Vec) else 'i'))
            nb = (rt.bits + 7) // 8 if rt.__class__ is Int else s.sizeof(t)      # i48 occupies 6 bytes in memory
            return ('load', dst, kind, nb, a, rt)
        if op == 'store':
            rest = re.sub(r'^(atomic\s+)?(volatile\s+)?', '', rest)
            t, v, p = s.tv(rest); p = skipws(rest, p); pt, a, p = s.tv(rest, p + 1)
            rt = R(t)
            kind = 'a' if rt.__class__ in (Struct, Arr, Vec) else ('b' if rt.__class__ is Int and rt.bits == 1 else 'i')
            nb = (rt.bits + 7) // 8 if rt.__class__ is Int else s.sizeof(t)
            return ('store', kind, nb, v, a, rt)
        if op == 'getelementptr':
            rest = re.sub(r'^inbounds\s+', '', rest)
            bt, p = s.parse_type(rest, 0); p = skipws(rest, p); pt, base, p = s.tv(rest, p + 1)
            idx = []
            while True:
                p = skipws(rest, p)
                if p < len(rest) and rest[p] == ',':
                    it, iv, p = s.tv(rest, p + 1); idx.append((R(it).bits, iv)); continue
                break
            coff, terms = s.gep_plan(bt, idx)
            return ('gep', dst, base, coff, tuple(terms))
        if op == 'extractvalue':
            t, a, p = s.tv(rest)
            return ('extractvalue', dst, a, tuple(int(k) for k in re.findall(r',\s*(\d+)', rest[p:])))
        if op == 'insertvalue':
            t, a, p = s.tv(rest); p = skipws(rest, p); bt, b, p = s.tv(rest, p + 1)
            return ('insertvalue', dst, a, b, tuple(int(k) for k in re.findall(r',\s*(\d+)', rest[p:])))
        if op == 'br':
            if rest.startswith('label'):
                return ('br', s.lab(f, rest[5:]))
            t, c, p = s.tv(rest)
            mm = re.match(r'\s*,\s*label\s+(%(?:"[^"]*"|\S+?))\s*,\s*label\s+(%(?:"[^"]*"|\S+))\s*$', rest[p:])
            return ('condbr', c, s.lab(f, mm.group(1)), s.lab(f, mm.group(2)))
        if op == 'switch':
            t, c, p = s.tv(rest)
            mm = re.match(r'\s*,\s*label\s+(%(?:"[^"]*"|\S+))\s*\[(.*)\]\s*$', rest[p:])
            bits = R(t).bits
            cases = [(int(v) & ((1 << bits) - 1), s.lab(f, lab)) for v, lab in re.findall(r'i\d+\s+(-?\d+)\s*,\s*label\s+(%(?:"[^"]*"|\S+))', mm.group(2))]
            return ('switch', bits, c, s.lab(f, mm.group(1)), tuple(cases))
        if op == 'ret':
            if rest.startswith('void'): return ('ret', None)
            t, v, p = s.tv(rest); return ('ret', v)
        if op == 'unreachable': return ('unreachable',)
        if op == 'resume':
            t, v, p = s.tv(rest); return ('resume', v)
        if op == 'phi':
            rest = re.sub(r'^((?:fast|nnan|ninf|nsz|arcp|contract|afn|reassoc)\s+)*', '', rest)
            t, p = s.parse_type(rest, 0)
            inc = {}
            while True:
                p = skipws(rest, p)
                if p >= len(rest): break
                if rest[p] == ',': p += 1; continue
                assert rest[p] == '[', rest[p:]
                v, p = s.operand(t, rest, p + 1); p = skipws(rest, p); assert rest[p] == ','
                m2 = IDENT.match(rest, skipws(rest, p + 1)); inc[f.bidx[unq(m2.group(0)[1:])]] = v
                p = rest.index(']', m2.end()) + 1
            return ('phi', dst, inc)
        if op == 'landingpad':
            cleanup = bool(re.search(r'\bcleanup\b', rest))
            clauses = []
            for mm in re.finditer(r'(catch|filter)\s+(\[[^\]]*\]\s*(?:zeroinitializer|\[[^\]]*\])|i8\*\s+(?:null|bitcast\s*\([^)]*\)|@\S+))', rest):
                if mm.group(1) == 'catch':
                    g = re.search(r'@("(?:[^"\\]|\\.)*"|[-a-zA-Z$._0-9]+)', mm.group(2))
                    clauses.append(('catch', unq(g.group(1)) if g else None))
                else:
                    clauses.append(('filter', [unq(x) for x in re.findall(r'@("(?:[^"\\]|\\.)*"|[-a-zA-Z$._0-9]+)', mm.group(2))]))
            return ('landingpad', dst, cleanup, tuple(clauses))
        if op in ('call', 'invoke', 'tail', 'musttail', 'notail'):
            if op in ('tail', 'musttail', 'notail'): rest = rest.split(None, 1)[1]; op = 'call'
            return s.decode_call(f, dst, op, rest)
        if op == 'atomicrmw':
            rest = re.sub(r'^volatile\s+', '', rest)
            aop, r2 = rest.split(None, 1)
            pt, a, p = s.tv(r2); p = skipws(r2, p); vt, v, p = s.tv(r2, p + 1)
            return ('atomicrmw', dst, aop, a, v, R(vt).bits, s.sizeof(vt))
        if op == 'cmpxchg':
            rest = re.sub(r'^(weak\s+)?(volatile\s+)?', '', rest)
            pt, a, p = s.tv(rest); p = skipws(rest, p); ct, c, p = s.tv(rest, p + 1); p = skipws(rest, p); nt, nv, p = s.tv(rest, p + 1)
            return ('cmpxchg', dst, a, c, nv, R(ct).bits, s.sizeof(ct))
        if op == 'fence': return ('fence',)
        if op in ('extractelement', 'insertelement', 'shufflevector'): return ('unsupported', op)
        raise Exception('unhandled op: ' + op)

    def decode_call(s, f, dst, op, rest):
        rest = re.sub(r'^((fastcc|ccc|coldcc|fast|nnan|ninf|nsz|arcp|contract|afn|reassoc)\s+)+', '', rest)
        p = s.skip_attrs(rest, 0)
        rt, p = s.parse_type(rest, p)
        if rt.__class__ is Func: rt = rt.ret
        elif rt.__class__ is Ptr and s.resolve(rt.to).__class__ is Func and skipws(rest, p) < len(rest) and rest[skipws(rest, p)] in '@%b':
            rt = s.resolve(rt.to).ret
        p = skipws(rest, p)
        if rest[p] == '@':
            m = IDENT.match(rest, p); callee = s.lookup_func(unq(m.group(0)[1:])); p = m.end()
        elif rest[p] == '%':
            m = IDENT.match(rest, p); callee = Reg(unq(m.group(0)[1:])); p = m.end()
        else:
            m = re.compile(r'bitcast\s*\(.*?@("(?:[^"\\]|\\.)*"|[-a-zA-Z$._0-9]+)\s+to\s+').match(rest, p)
            callee = s.lookup_func(unq(m.group(1)))
            # find matching close paren of the bitcast(
            q = rest.index('(', p); depth = 0
            while True:
                if rest[q] == '(': depth += 1
                elif rest[q] == ')':
                    depth -= 1
                    if depth == 0: break
                q += 1
            p = q + 1
        args = []
        p = skipws(rest, p); assert rest[p] == '(', rest[p:p + 40]
        q = skipws(rest, p + 1)
        if rest[q] != ')':
            while True:
                at, q = s.parse_type(rest, q); q = s.skip_attrs(rest, q)
                if at.__class__ is Meta:
                    m = re.compile(r'\s*![0-9a-zA-Z_.]+|\s*!\{[^}]*\}|\s*!DIExpression\([^)]*\)').match(rest, q); q = m.end()
                    args.append(None)
                else:
                    av, q = s.operand(at, rest, q); args.append(av)
                q = skipws(rest, q)
                if rest[q] == ',': q += 1; continue
                break
        tail = rest[q + 1:]
        normal = unwind = None
        if op == 'invoke':
            m = re.search(r'to\s+label\s+(%(?:"[^"]*"|\S+))\s+unwind\s+label\s+(%(?:"[^"]*"|\S+))', tail)
            normal, unwind = s.lab(f, m.group(1)), s.lab(f, m.group(2))
        return ('call', dst, callee, tuple(args), normal, unwind)
