"""bv2int.py - translate z3 bit-vector / FP / Bool terms into integer (and real) arithmetic.

A BV term of width w is represented *lazily* as an Int expression E together with a conservative interval [lo, hi]
such that  value(term) == E (mod 2^w).  Ring operations (+, -, *, shl-by-constant, truncation) need no reduction at
all; only operations that depend on the canonical value (division, comparison, extension, conversion to FP, shifts
right) normalise, and the interval tells when the normalisation is the identity.  Where it is not, `mod 2^w` is kept
explicitly - this is never "mathematical integers standing in for machine words".

Floating point, two modes:
 * uninterpreted (default): an FP operation is a deterministic function of its operands' bit patterns and becomes an
   uninterpreted function of them (sound for unsat; a sat answer may be spurious and must be replayed).  int->fp
   conversion is a function of the integer *value* (shared by the signed and the unsigned instruction), and
   fp.to_sbv(RTZ, int_to_fp(X)) = X for |X| < 2^53.
 * exact (exact_fp=True): FP operations become real arithmetic, each with an *exactness obligation* (the real result
   is an integer of magnitude <= 2^53, hence representable, hence IEEE rounding is the identity) that the caller must
   discharge under the same path condition; ceil/floor/trunc of a quotient a/b of integers with |a| < 2^52 uses the
   lemma that RNE(a/b) and a/b have the same integer part (rounding error <= 2^-53 |a/b| < 1/|b| <= distance of a
   non-integer a/b to the nearest integer).
"""
import z3, fractions, struct

class Untranslatable(Exception): pass

class Tr:
    def __init__(s, exact_fp=False, var_ranges=None):
        s.exact_fp = exact_fp
        s.oblig = []
        s.cache = {}
        s.vars = {}        # bv var id -> (bvvar, intvar)
        s.side = []
        s.ufs = {}
        s.nfresh = 0
        s.var_ranges = var_ranges or {}    # bv var id -> (lo, hi) unsigned bounds taken from the path condition

    # ------------------------------------------------------------------ helpers
    def uf(s, name, nargs, ret=None):
        k = (name, nargs)
        if k not in s.ufs: s.ufs[k] = z3.Function(name, *([z3.IntSort()] * nargs + [ret or z3.IntSort()]))
        return s.ufs[k]
    @staticmethod
    def U(v, w):
        """canonical unsigned value of lazy (E, lo, hi)"""
        E, lo, hi = v; M = 1 << w
        if lo >= 0 and hi < M: return E, lo, hi
        if lo >= -M and hi < 0: return E + M, lo + M, hi + M
        if lo >= M and hi < 2 * M: return E - M, lo - M, hi - M
        return E % M, 0, M - 1
    @staticmethod
    def S(v, w):
        """canonical signed value"""
        E, lo, hi = v; M = 1 << w; H = M >> 1
        if lo >= -H and hi < H: return E, lo, hi
        if lo >= H and hi < M + H: return E - M, lo - M, hi - M
        if lo >= 0 and hi < M: return z3.If(E >= H, E - M, E), -H, H - 1
        return ((E + H) % M) - H, -H, H - 1

    # ------------------------------------------------------------------ bit-vectors (lazy)
    def bvl(s, t):
        k = t.get_id()
        r = s.cache.get(k)
        if r is not None: return r
        r = s._bvl(t)
        s.cache[k] = r
        return r
    def bv(s, t):
        """canonical unsigned Int expression (compatibility helper)"""
        return s.U(s.bvl(t), t.size())[0]
    def signed(s, e, w):   # compatibility (e is a canonical unsigned expr)
        return z3.If(e >= (1 << (w - 1)), e - (1 << w), e)

    def _bvl(s, t):
        w = t.size(); M = 1 << w
        d = t.decl().kind(); ch = t.children()
        if z3.is_bv_value(t):
            v = t.as_long(); return z3.IntVal(v), v, v
        if z3.is_const(t) and d == z3.Z3_OP_UNINTERPRETED:
            iv = z3.Int(str(t) + '!int')
            lo, hi = s.var_ranges.get(t.get_id(), (0, M - 1))
            s.side.append(z3.And(iv >= lo, iv <= hi)); s.vars[t.get_id()] = (t, iv)
            return iv, lo, hi
        if d == z3.Z3_OP_BADD:
            E, lo, hi = s.bvl(ch[0])
            for c in ch[1:]:
                e2, l2, h2 = s.bvl(c); E, lo, hi = E + e2, lo + l2, hi + h2
            return E, lo, hi
        if d == z3.Z3_OP_BSUB:
            (a, la, ha), (b, lb, hb) = s.bvl(ch[0]), s.bvl(ch[1]); return a - b, la - hb, ha - lb
        if d == z3.Z3_OP_BMUL:
            E, lo, hi = s.bvl(ch[0])
            for c in ch[1:]:
                e2, l2, h2 = s.bvl(c)
                ps = (lo * l2, lo * h2, hi * l2, hi * h2); E, lo, hi = E * e2, min(ps), max(ps)
            return E, lo, hi
        if d == z3.Z3_OP_BNEG:
            a, la, ha = s.bvl(ch[0]); return -a, -ha, -la
        if d == z3.Z3_OP_BNOT:
            a, la, ha = s.U(s.bvl(ch[0]), w); return (M - 1) - a, M - 1 - ha, M - 1 - la
        if d in (z3.Z3_OP_BUDIV, z3.Z3_OP_BUDIV_I, z3.Z3_OP_BUREM, z3.Z3_OP_BUREM_I):
            (a, la, ha), (b, lb, hb) = s.U(s.bvl(ch[0]), w), s.U(s.bvl(ch[1]), w)
            if d in (z3.Z3_OP_BUDIV, z3.Z3_OP_BUDIV_I):
                if lb > 0: return a / b, la // hb, ha // lb
                return z3.If(b == 0, z3.IntVal(M - 1), a / b), 0, M - 1
            if lb > 0: return a % b, 0, min(ha, hb - 1)
            return z3.If(b == 0, a, a % b), 0, ha
        if d in (z3.Z3_OP_BSDIV, z3.Z3_OP_BSDIV_I, z3.Z3_OP_BSREM, z3.Z3_OP_BSREM_I):
            (a, la, ha), (b, lb, hb) = s.S(s.bvl(ch[0]), w), s.S(s.bvl(ch[1]), w)
            if la >= 0 and lb > 0:
                if d in (z3.Z3_OP_BSDIV, z3.Z3_OP_BSDIV_I): return a / b, la // hb, ha // lb
                return a % b, 0, min(ha, hb - 1)
            absq = z3.If(a >= 0, a, -a) / z3.If(b >= 0, b, -b)
            q = z3.If((a >= 0) == (b >= 0), absq, -absq)
            bnd = max(abs(la), abs(ha))
            if d in (z3.Z3_OP_BSDIV, z3.Z3_OP_BSDIV_I):
                return (q if (lb > 0 or hb < 0) else z3.If(b == 0, z3.If(a >= 0, z3.IntVal(-1), z3.IntVal(1)), q)), -bnd, bnd
            r = a - q * b
            return (r if (lb > 0 or hb < 0) else z3.If(b == 0, a, r)), -bnd, bnd
        if d == z3.Z3_OP_BSHL and z3.is_bv_value(ch[1]):
            c = ch[1].as_long()
            if c >= w: return z3.IntVal(0), 0, 0
            a, la, ha = s.bvl(ch[0]); return a * (1 << c), la << c, ha << c
        if d == z3.Z3_OP_BLSHR and z3.is_bv_value(ch[1]):
            c = ch[1].as_long()
            if c >= w: return z3.IntVal(0), 0, 0
            a, la, ha = s.U(s.bvl(ch[0]), w); return a / (1 << c), la >> c, ha >> c
        if d == z3.Z3_OP_BASHR and z3.is_bv_value(ch[1]):
            c = min(ch[1].as_long(), w - 1)
            a, la, ha = s.S(s.bvl(ch[0]), w); return a / (1 << c), la >> c, ha >> c      # Int division with positive divisor is floor
        if d == z3.Z3_OP_CONCAT:
            E, lo, hi = z3.IntVal(0), 0, 0
            for c in ch:
                a, la, ha = s.U(s.bvl(c), c.size()); k = 1 << c.size()
                E, lo, hi = E * k + a, lo * k + la, hi * k + ha
            return E, lo, hi
        if d == z3.Z3_OP_EXTRACT:
            hi_, lo_ = t.params()[0], t.params()[1]
            if lo_ == 0:
                a, la, ha = s.bvl(ch[0]); return a, la, ha            # congruent modulo 2^w implies congruent modulo 2^(hi+1)
            a, la, ha = s.U(s.bvl(ch[0]), ch[0].size())
            return a / (1 << lo_), la >> lo_, ha >> lo_               # still lazy w.r.t. the new (smaller) width
        if d == z3.Z3_OP_ZERO_EXT: return s.U(s.bvl(ch[0]), ch[0].size())
        if d == z3.Z3_OP_SIGN_EXT: return s.S(s.bvl(ch[0]), ch[0].size())
        if d == z3.Z3_OP_ITE:
            c = s.boolean(ch[0]); (a, la, ha), (b, lb, hb) = s.bvl(ch[1]), s.bvl(ch[2])
            return z3.If(c, a, b), min(la, lb), max(ha, hb)
        if d == z3.Z3_OP_BAND and len(ch) == 2 and any(z3.is_bv_value(c) for c in ch):
            c, x = (ch[0], ch[1]) if z3.is_bv_value(ch[0]) else (ch[1], ch[0])
            m = c.as_long()
            a, la, ha = s.U(s.bvl(x), w)
            if m == M - 1: return a, la, ha
            if m & (m + 1) == 0:
                if ha <= m: return a, la, ha
                return a % (m + 1), 0, m
            lo_ = (m & -m).bit_length() - 1; hi_ = m.bit_length()
            if m == ((1 << hi_) - 1) ^ ((1 << lo_) - 1): return ((a / (1 << lo_)) % (1 << (hi_ - lo_))) * (1 << lo_), 0, m
            raise Untranslatable('bvand with mask %x' % m)
        if d in (z3.Z3_OP_FPA_TO_SBV, z3.Z3_OP_FPA_TO_UBV):
            sgn = d == z3.Z3_OP_FPA_TO_SBV
            rng = (-(1 << (w - 1)), (1 << (w - 1)) - 1) if sgn else (0, M - 1)
            if s.exact_fp:
                x = s.fp_val(ch[1])
                if x[0] == 'q': x = ('i', z3.If(x[1] >= 0, x[1] / x[2], -((-x[1]) / x[2])), int(x[3]) - 1, int(x[4]) + 1)
                if not (x[2] >= rng[0] and x[3] <= rng[1]):
                    # the conversion may be out of range: that is itself undefined behaviour, which the IR-level check decides;
                    # here the value is only meaningful when in range
                    s.side.append(z3.And(x[1] >= rng[0], x[1] <= rng[1]))
                return x[1], max(x[2], rng[0]), min(x[3], rng[1])
            x = ch[1]; xk = x.decl().kind(); xc = x.children()
            if sgn and xk in (z3.Z3_OP_FPA_TO_FP, z3.Z3_OP_FPA_TO_FP_UNSIGNED) and len(xc) == 2 and z3.is_bv(xc[1]):
                v = s.S(s.bvl(xc[1]), xc[1].size()) if xk == z3.Z3_OP_FPA_TO_FP else s.U(s.bvl(xc[1]), xc[1].size())
                if v[1] > -(1 << 53) and v[2] < (1 << 53): return v            # int -> double -> int is the identity below 2^53
            r = s.uf('fp_to_%sbv%d_%s' % ('s' if sgn else 'u', w, str(ch[0]).replace('()', '')), 1)(s.fp_bits(x))
            known = s.var_ranges.get(t.get_id())          # unsigned bounds on the converted value stated by the path condition
            if known is not None and known[1] < (1 << (w - 1)): rng = (max(rng[0], known[0]), min(rng[1], known[1]))
            s.side.append(z3.And(r >= rng[0], r <= rng[1]))
            return r, rng[0], rng[1]
        if d == z3.Z3_OP_FPA_TO_IEEE_BV:
            return s.fp_bits(ch[0]), 0, M - 1
        raise Untranslatable('bv op %s' % t.decl().name())

    # ------------------------------------------------------------------ floating point, uninterpreted mode
    def fp_bits(s, t):
        k = ('fp', t.get_id())
        if k in s.cache: return s.cache[k]
        if s.exact_fp: raise Untranslatable('bit pattern of a double needed in exact mode: ' + str(t)[:80])
        d = t.decl().kind(); ch = t.children()
        W = t.sort().ebits() + t.sort().sbits()
        if z3.is_fp_value(t): r = z3.IntVal(z3.simplify(z3.fpToIEEEBV(t)).as_long())
        elif d == z3.Z3_OP_FPA_TO_FP and len(ch) == 1 and z3.is_bv(ch[0]): r = s.bv(ch[0])
        elif d in (z3.Z3_OP_FPA_TO_FP, z3.Z3_OP_FPA_TO_FP_UNSIGNED) and len(ch) == 2 and z3.is_bv(ch[1]) and z3.is_fprm_value(ch[0]):
            v = s.S(s.bvl(ch[1]), ch[1].size())[0] if d == z3.Z3_OP_FPA_TO_FP else s.U(s.bvl(ch[1]), ch[1].size())[0]
            r = s.uf('int_to_fp%d_%s' % (W, str(ch[0]).replace('()', '')), 1)(v)
            s.side.append(z3.And(r >= 0, r < (1 << W)))
        else:
            args = []
            for c in ch:
                if z3.is_fprm(c): args.append(z3.IntVal({'RNE': 0, 'RNA': 1, 'RTP': 2, 'RTN': 3, 'RTZ': 4}.get(str(c).replace('()', ''), 5)) if z3.is_fprm_value(c) else z3.IntVal(9))
                elif z3.is_fp(c): args.append(s.fp_bits(c))
                elif z3.is_bv(c): args.append(s.bv(c))
                else: raise Untranslatable('fp operand ' + str(c.sort()))
            r = s.uf('fp_' + t.decl().name().replace('.', '_') + '_%d' % t.sort().sbits(), len(args))(*args)
            s.side.append(z3.And(r >= 0, r < (1 << W)))
        s.cache[k] = r
        return r

    # ------------------------------------------------------------------ floating point, exact mode
    # An FP term is translated to ('i', IntExpr, lo, hi)  - an integer-valued double, |value| <= 2^53 by interval -
    # or ('q', IntExpr a, int b, lo, hi) - the quotient a / b of an integer by a positive integer constant, which may
    # only be consumed by ceil/floor/trunc (lemma in the module docstring), by a comparison, or by fp.to_sbv.
    # Integrality and magnitude are established syntactically (interval arithmetic), so no exactness query is needed;
    # anything that is not provably exact this way is Untranslatable, never approximated.
    LIM = 1 << 53
    def fp_val(s, t):
        k = ('fr', t.get_id())
        if k in s.cache: return s.cache[k]
        r = s._fp_val(t)
        if r[0] == 'i' and not (r[2] >= -s.LIM and r[3] <= s.LIM): raise Untranslatable('integer-valued double may exceed 2^53 (not exact)')
        s.cache[k] = r
        return r
    def _fp_val(s, t):
        d = t.decl().kind(); ch = t.children()
        if z3.is_fp_value(t):
            bits = z3.simplify(z3.fpToIEEEBV(t)).as_long()
            f = struct.unpack('<d', struct.pack('<Q', bits))[0] if t.sort().sbits() == 53 else struct.unpack('<f', struct.pack('<I', bits))[0]
            if f != f or f in (float('inf'), float('-inf')): raise Untranslatable('NaN/inf constant')
            fr = fractions.Fraction(f)
            if fr.denominator != 1: raise Untranslatable('non-integer constant %r in exact mode' % f)
            return 'i', z3.IntVal(fr.numerator), fr.numerator, fr.numerator
        if d == z3.Z3_OP_FPA_TO_FP and len(ch) == 1:
            c = ch[0]
            if c.decl().kind() == z3.Z3_OP_FPA_TO_IEEE_BV: return s.fp_val(c.children()[0])
            if z3.is_bv_value(c): return s.fp_val(z3.simplify(z3.fpBVToFP(c, t.sort())))
            if c.decl().kind() == z3.Z3_OP_ITE:
                x, y = s.fp_val(z3.fpBVToFP(c.children()[1], t.sort())), s.fp_val(z3.fpBVToFP(c.children()[2], t.sort()))
                if x[0] == 'i' and y[0] == 'i': return 'i', z3.If(s.boolean(c.children()[0]), x[1], y[1]), min(x[2], y[2]), max(x[3], y[3])
            raise Untranslatable('double taken from raw bits: ' + str(c)[:60])
        if d == z3.Z3_OP_FPA_TO_FP and len(ch) == 2 and z3.is_bv(ch[1]):
            v = s.S(s.bvl(ch[1]), ch[1].size()); return ('i',) + tuple(v)
        if d == z3.Z3_OP_FPA_TO_FP_UNSIGNED and len(ch) == 2 and z3.is_bv(ch[1]):
            v = s.U(s.bvl(ch[1]), ch[1].size()); return ('i',) + tuple(v)
        if d in (z3.Z3_OP_FPA_ADD, z3.Z3_OP_FPA_SUB, z3.Z3_OP_FPA_MUL):
            x, y = s.fp_val(ch[1]), s.fp_val(ch[2])
            if x[0] != 'i' or y[0] != 'i': raise Untranslatable('arithmetic on a non-integer double in exact mode')
            if d == z3.Z3_OP_FPA_ADD: return 'i', x[1] + y[1], x[2] + y[2], x[3] + y[3]
            if d == z3.Z3_OP_FPA_SUB: return 'i', x[1] - y[1], x[2] - y[3], x[3] - y[2]
            ps = (x[2] * y[2], x[2] * y[3], x[3] * y[2], x[3] * y[3])
            return 'i', x[1] * y[1], min(ps), max(ps)
        if d == z3.Z3_OP_FPA_DIV:
            x, y = s.fp_val(ch[1]), s.fp_val(ch[2])
            if x[0] != 'i' or y[0] != 'i': raise Untranslatable('division of non-integer doubles in exact mode')
            a, b = z3.simplify(x[1]), z3.simplify(y[1])
            if not z3.is_int_value(b): raise Untranslatable('division by a symbolic double in exact mode (tempo must be a run parameter): ' + str(b)[:300])
            bv_ = b.as_long()
            if bv_ == 0: raise Untranslatable('division by zero')
            if bv_ < 0: a, bv_, x = -a, -bv_, ('i', -x[1], -x[3], -x[2])
            if z3.is_int_value(a):
                av = a.as_long()
                if av % bv_ == 0: return 'i', z3.IntVal(av // bv_), av // bv_, av // bv_
            if not (x[2] > -(1 << 52) and x[3] < (1 << 52)): raise Untranslatable('dividend may exceed 2^52')
            return 'q', a, bv_, x[2] / bv_, x[3] / bv_
        if d == z3.Z3_OP_FPA_ROUND_TO_INTEGRAL:
            rm = str(ch[0]).replace('()', ''); x = s.fp_val(ch[1])
            if x[0] == 'i': return x
            _, a, b, lo, hi = x
            import math
            if rm in ('RTP', 'roundTowardPositive'): return 'i', -((-a) / b), math.ceil(lo), math.ceil(hi)
            if rm in ('RTN', 'roundTowardNegative'): return 'i', a / b, math.floor(lo), math.floor(hi)
            if rm in ('RTZ', 'roundTowardZero'): return 'i', z3.If(a >= 0, a / b, -((-a) / b)), math.trunc(lo) if lo < 0 else math.floor(lo), math.floor(hi) if hi >= 0 else math.trunc(hi)
            raise Untranslatable('roundToIntegral ' + rm)
        if d == z3.Z3_OP_FPA_NEG:
            x = s.fp_val(ch[0])
            if x[0] == 'i': return 'i', -x[1], -x[3], -x[2]
            return 'q', -x[1], x[2], -x[4], -x[3]
        if d == z3.Z3_OP_FPA_ABS:
            x = s.fp_val(ch[0])
            if x[0] == 'i': return 'i', z3.If(x[1] >= 0, x[1], -x[1]), 0, max(abs(x[2]), abs(x[3]))
        if d == z3.Z3_OP_ITE:
            x, y = s.fp_val(ch[1]), s.fp_val(ch[2])
            if x[0] == 'i' and y[0] == 'i': return 'i', z3.If(s.boolean(ch[0]), x[1], y[1]), min(x[2], y[2]), max(x[3], y[3])
        raise Untranslatable('fp op (exact mode) ' + t.decl().name())
    def fp_cmp(s, d, x, y):
        """compare two exact values (cross-multiplying quotients by their positive constant denominators)"""
        ax, bx = (x[1], 1) if x[0] == 'i' else (x[1], x[2])
        ay, by = (y[1], 1) if y[0] == 'i' else (y[1], y[2])
        l, r = ax * by, ay * bx
        return {z3.Z3_OP_FPA_LE: l <= r, z3.Z3_OP_FPA_LT: l < r, z3.Z3_OP_FPA_GE: l >= r, z3.Z3_OP_FPA_GT: l > r, z3.Z3_OP_FPA_EQ: l == r}[d]

    # ------------------------------------------------------------------ booleans
    def boolean(s, t):
        k = ('b', t.get_id())
        if k in s.cache: return s.cache[k]
        d = t.decl().kind(); ch = t.children()
        if z3.is_true(t) or z3.is_false(t): r = t
        elif d == z3.Z3_OP_AND: r = z3.And(*[s.boolean(c) for c in ch])
        elif d == z3.Z3_OP_OR: r = z3.Or(*[s.boolean(c) for c in ch])
        elif d == z3.Z3_OP_NOT: r = z3.Not(s.boolean(ch[0]))
        elif d == z3.Z3_OP_XOR: r = z3.Xor(s.boolean(ch[0]), s.boolean(ch[1]))
        elif d == z3.Z3_OP_IMPLIES: r = z3.Implies(s.boolean(ch[0]), s.boolean(ch[1]))
        elif d == z3.Z3_OP_ITE: r = z3.If(s.boolean(ch[0]), s.boolean(ch[1]), s.boolean(ch[2]))
        elif d in (z3.Z3_OP_EQ, z3.Z3_OP_IFF):
            a, b = ch
            if z3.is_bool(a): r = s.boolean(a) == s.boolean(b)
            elif z3.is_bv(a) and s.exact_fp and a.decl().kind() == z3.Z3_OP_FPA_TO_IEEE_BV and b.decl().kind() == z3.Z3_OP_FPA_TO_IEEE_BV:
                r = s.fp_cmp(z3.Z3_OP_FPA_EQ, s.fp_val(a.children()[0]), s.fp_val(b.children()[0]))     # sign of zero not distinguished (stated)
            elif z3.is_bv(a):
                w = a.size()
                r = s.U(s.bvl(a), w)[0] == s.U(s.bvl(b), w)[0]
            elif z3.is_fp(a): r = s.fp_cmp(z3.Z3_OP_FPA_EQ, s.fp_val(a), s.fp_val(b)) if s.exact_fp else (s.fp_bits(a) == s.fp_bits(b))
            else: raise Untranslatable('eq on ' + str(a.sort()))
        elif d == z3.Z3_OP_DISTINCT and len(ch) == 2: r = z3.Not(s.boolean(ch[0] == ch[1]))
        elif d in (z3.Z3_OP_ULEQ, z3.Z3_OP_ULT, z3.Z3_OP_UGEQ, z3.Z3_OP_UGT):
            w = ch[0].size(); a, b = s.U(s.bvl(ch[0]), w)[0], s.U(s.bvl(ch[1]), w)[0]
            r = {z3.Z3_OP_ULEQ: a <= b, z3.Z3_OP_ULT: a < b, z3.Z3_OP_UGEQ: a >= b, z3.Z3_OP_UGT: a > b}[d]
        elif d in (z3.Z3_OP_SLEQ, z3.Z3_OP_SLT, z3.Z3_OP_SGEQ, z3.Z3_OP_SGT):
            w = ch[0].size(); a, b = s.S(s.bvl(ch[0]), w)[0], s.S(s.bvl(ch[1]), w)[0]
            r = {z3.Z3_OP_SLEQ: a <= b, z3.Z3_OP_SLT: a < b, z3.Z3_OP_SGEQ: a >= b, z3.Z3_OP_SGT: a > b}[d]
        elif s.exact_fp and d in (z3.Z3_OP_FPA_LE, z3.Z3_OP_FPA_LT, z3.Z3_OP_FPA_GE, z3.Z3_OP_FPA_GT, z3.Z3_OP_FPA_EQ):
            r = s.fp_cmp(d, s.fp_val(ch[0]), s.fp_val(ch[1]))
        elif s.exact_fp and d in (z3.Z3_OP_FPA_IS_NAN, z3.Z3_OP_FPA_IS_INF):
            s.fp_val(ch[0]); r = z3.BoolVal(False)
        elif s.exact_fp and d == z3.Z3_OP_FPA_IS_ZERO: r = s.fp_val(ch[0])[1] == 0
        elif d in (z3.Z3_OP_FPA_LE, z3.Z3_OP_FPA_LT, z3.Z3_OP_FPA_GE, z3.Z3_OP_FPA_GT, z3.Z3_OP_FPA_EQ, z3.Z3_OP_FPA_IS_NAN, z3.Z3_OP_FPA_IS_INF,
                   z3.Z3_OP_FPA_IS_ZERO, z3.Z3_OP_FPA_IS_NEGATIVE, z3.Z3_OP_FPA_IS_POSITIVE, z3.Z3_OP_FPA_IS_NORMAL, z3.Z3_OP_FPA_IS_SUBNORMAL):
            args = [s.fp_bits(c) for c in ch]
            r = s.uf('fpp_' + t.decl().name().replace('.', '_'), len(args))(*args) != 0
        elif d in (z3.Z3_OP_BSMUL_NO_OVFL, z3.Z3_OP_BUMUL_NO_OVFL, z3.Z3_OP_BSMUL_NO_UDFL):
            w = ch[0].size()
            if d == z3.Z3_OP_BUMUL_NO_OVFL: r = s.U(s.bvl(ch[0]), w)[0] * s.U(s.bvl(ch[1]), w)[0] < (1 << w)
            else:
                p = s.S(s.bvl(ch[0]), w)[0] * s.S(s.bvl(ch[1]), w)[0]
                r = (p < (1 << (w - 1))) if d == z3.Z3_OP_BSMUL_NO_OVFL else (p >= -(1 << (w - 1)))
        else: raise Untranslatable('bool op %s' % t.decl().name())
        s.cache[k] = r
        return r

def ranges_from(pc):
    """unsigned bounds for BV variables stated at the top level of the path condition (ULE/ULT/UGE/UGT var const)"""
    rng = {}; parts = {}
    def note(v, lo=None, hi=None):
        if z3.is_bv(v) and v.decl().kind() == z3.Z3_OP_EXTRACT and v.arg(0).decl().kind() in (z3.Z3_OP_FPA_TO_SBV, z3.Z3_OP_FPA_TO_UBV):
            # bounds on the high / low part of a double->integer conversion (as `x <= 2^31` compiles to): combined below
            T = v.arg(0); h_, l_ = v.params()
            pl, ph = parts.setdefault(T.get_id(), (T, {}))[1].get((h_, l_), (0, (1 << v.size()) - 1))
            if lo is not None: pl = max(pl, lo)
            if hi is not None: ph = min(ph, hi)
            parts[T.get_id()][1][(h_, l_)] = (pl, ph)
            return
        if not (z3.is_bv(v) and ((z3.is_const(v) and v.decl().kind() == z3.Z3_OP_UNINTERPRETED) or v.decl().kind() in (z3.Z3_OP_FPA_TO_SBV, z3.Z3_OP_FPA_TO_UBV))): return
        l0, h0 = rng.get(v.get_id(), (0, (1 << v.size()) - 1))
        if lo is not None: l0 = max(l0, lo)
        if hi is not None: h0 = min(h0, hi)
        rng[v.get_id()] = (l0, h0)
    def walk(c, neg=False):
        d = c.decl().kind(); ch = c.children()
        if d == z3.Z3_OP_AND and not neg:
            for x in ch: walk(x)
        elif d == z3.Z3_OP_OR and neg:
            for x in ch: walk(x, True)
        elif d == z3.Z3_OP_NOT: walk(ch[0], not neg)
        elif d in (z3.Z3_OP_ULEQ, z3.Z3_OP_ULT, z3.Z3_OP_UGEQ, z3.Z3_OP_UGT):
            a, b = ch
            op = d
            if neg: op = {z3.Z3_OP_ULEQ: z3.Z3_OP_UGT, z3.Z3_OP_ULT: z3.Z3_OP_UGEQ, z3.Z3_OP_UGEQ: z3.Z3_OP_ULT, z3.Z3_OP_UGT: z3.Z3_OP_ULEQ}[d]
            if z3.is_bv_value(b):
                k = b.as_long()
                if op == z3.Z3_OP_ULEQ: note(a, hi=k)
                elif op == z3.Z3_OP_ULT: note(a, hi=k - 1)
                elif op == z3.Z3_OP_UGEQ: note(a, lo=k)
                else: note(a, lo=k + 1)
            elif z3.is_bv_value(a):
                k = a.as_long()
                if op == z3.Z3_OP_ULEQ: note(b, lo=k)
                elif op == z3.Z3_OP_ULT: note(b, lo=k + 1)
                elif op == z3.Z3_OP_UGEQ: note(b, hi=k)
                else: note(b, hi=k - 1)
        elif d == z3.Z3_OP_EQ and not neg and z3.is_bv(ch[0]):
            a, b = ch
            if z3.is_bv_value(b): note(a, lo=b.as_long(), hi=b.as_long())
            elif z3.is_bv_value(a): note(b, lo=a.as_long(), hi=a.as_long())
    for c in pc: walk(c)
    for tid, (T, ps) in parts.items():
        w = T.size()
        for (h_, l_), (pl, ph) in ps.items():
            # the upper part [w-1 .. p] is known to be zero and the lower part [p-1 .. 0] is bounded: the whole value is bounded
            if h_ == w - 1 and l_ > 0 and ph == 0 and (l_ - 1, 0) in ps:
                ll_, lh_ = ps[(l_ - 1, 0)]
                l0, h0 = rng.get(tid, (0, (1 << w) - 1)); rng[tid] = (max(l0, ll_), min(h0, lh_))
            elif h_ == w - 1 and l_ > 0 and ph == 0:
                l0, h0 = rng.get(tid, (0, (1 << w) - 1)); rng[tid] = (l0, min(h0, (1 << l_) - 1))
    return rng

def _model_values(tr, m):
    return {bv_: m.eval(iv, model_completion=True).as_long() for bv_, iv in tr.vars.values()}

def solve_int(pc, cond, timeout_ms=60000, dump=None, var_ranges=None):
    """decide pc /\\ cond in the integer encoding (FP uninterpreted).
    returns ('sat', {bvvar: value}) | ('unsat', None) | ('unknown', why) | ('untranslatable', why)"""
    rr = ranges_from(pc); rr.update(var_ranges or {})
    tr = Tr(var_ranges=rr)
    try:
        fs = [tr.boolean(c) for c in pc] + [tr.boolean(cond)]
    except Untranslatable as e:
        return 'untranslatable', str(e)
    sol = z3.Solver(); sol.set('timeout', timeout_ms)
    for f in fs + tr.side: sol.add(f)
    if dump is not None: dump.append(sol.to_smt2())
    r = sol.check()
    if r == z3.sat: return 'sat', _model_values(tr, sol.model())
    if r == z3.unsat: return 'unsat', None
    return 'unknown', sol.reason_unknown()

def solve_exact(pc, cond, timeout_ms=60000, stats=None, var_ranges=None):
    """decide pc /\\ cond with FP translated to exact real arithmetic.  A verdict is only returned if every exactness
    obligation is itself valid under pc /\\ cond (otherwise ('inexact', ...)); see Tr.fp_real."""
    rr = ranges_from(pc); rr.update(var_ranges or {})
    tr = Tr(exact_fp=True, var_ranges=rr)
    try:
        fs = [tr.boolean(c) for c in pc] + ([tr.boolean(cond)] if cond is not None else [])
    except Untranslatable as e:
        return 'untranslatable', str(e)
    sol = z3.Solver(); sol.set('timeout', timeout_ms)
    for f in fs + tr.side: sol.add(f)
    for ob in tr.oblig:
        sol.push(); sol.add(z3.Not(ob))
        r = sol.check()
        if stats is not None: stats['exactness_queries'] = stats.get('exactness_queries', 0) + 1
        if r != z3.unsat:
            bad = {'obligation': str(ob)[:300]}
            if r == z3.sat: bad.update({str(k): v for k, v in _model_values(tr, sol.model()).items()})
            sol.pop()
            return 'inexact', (str(r), bad)
        sol.pop()
        sol.add(ob)
    r = sol.check()
    if r == z3.sat: return 'sat', _model_values(tr, sol.model())
    if r == z3.unsat: return 'unsat', None
    return 'unknown', sol.reason_unknown()
