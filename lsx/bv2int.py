"""bv2int.py - translate z3 bit-vector / Bool terms into integer arithmetic with explicit mod 2^w.

Every BV term of width w becomes an Int term constrained to [0, 2^w).  Wrap-around is kept explicitly
(`mod 2^w`), so this is not "mathematical integers standing in for machine words".  Floating-point
operations are deterministic functions of their operands' bit patterns and are abstracted as
uninterpreted functions over those (sound for proving; a counterexample may be spurious and must be
replayed), with one exact rule: fp.to_sbv(RTZ, to_fp_signed(RNE, X)) = X when |X| <= 2^53.

Used where bit-blasting a 64-bit division by a symbolic divisor does not finish (C19).
"""
import z3

class Untranslatable(Exception): pass

class Tr:
    def __init__(s):
        s.cache = {}
        s.vars = {}        # bv var id -> (bvvar, intvar)
        s.side = []        # range constraints
        s.ufs = {}
        s.nfresh = 0
    def fresh(s, w, hint='t'):
        s.nfresh += 1
        v = z3.Int('%s!i%d' % (hint, s.nfresh))
        s.side.append(z3.And(v >= 0, v < (1 << w)))
        return v
    def uf(s, name, nargs):
        k = (name, nargs)
        if k not in s.ufs: s.ufs[k] = z3.Function(name, *([z3.IntSort()] * (nargs + 1)))
        return s.ufs[k]
    def signed(s, x, w):
        return z3.If(x >= (1 << (w - 1)), x - (1 << w), x)
    def wrap(s, x, w):
        return x % (1 << w)

    def fp_bits(s, t):
        """Int encoding (bit pattern, as an uninterpreted function of the operands) of an FP-sorted term"""
        k = ('fp', t.get_id())
        if k in s.cache: return s.cache[k]
        d = t.decl().kind()
        ch = t.children()
        if z3.is_fp_value(t) or z3.is_fprm_value(t):
            r = z3.IntVal(z3.simplify(z3.fpToIEEEBV(t)).as_long()) if z3.is_fp_value(t) else z3.IntVal(hash(str(t)) % 7)
        elif d == z3.Z3_OP_FPA_TO_FP and len(ch) == 1 and z3.is_bv(ch[0]):
            r = s.bv(ch[0])                       # reinterpretation of bits
        elif d in (z3.Z3_OP_FPA_TO_FP, z3.Z3_OP_FPA_TO_FP_UNSIGNED) and len(ch) == 2 and z3.is_bv(ch[1]) and z3.is_fprm_value(ch[0]):
            # integer -> float conversion: a function of the mathematical integer value (same function for the signed
            # and unsigned instruction), so equal integers convert to equal doubles
            v = s.bv(ch[1]) if d == z3.Z3_OP_FPA_TO_FP_UNSIGNED else s.signed(s.bv(ch[1]), ch[1].size())
            r = s.uf('int_to_fp%d_%s' % (t.sort().ebits() + t.sort().sbits(), str(ch[0]).replace('()', '')), 1)(v)
            w = t.sort().ebits() + t.sort().sbits()
            s.side.append(z3.And(r >= 0, r < (1 << w)))
        else:
            args = []
            for c in ch:
                if z3.is_fprm(c): args.append(z3.IntVal({'RNE': 0, 'RNA': 1, 'RTP': 2, 'RTN': 3, 'RTZ': 4}.get(str(c).replace('()', ''), 5)) if z3.is_fprm_value(c) else z3.IntVal(9))
                elif z3.is_fp(c): args.append(s.fp_bits(c))
                elif z3.is_bv(c): args.append(s.bv(c))
                else: raise Untranslatable('fp operand ' + str(c.sort()))
            name = 'fp_' + t.decl().name().replace('.', '_') + '_%d' % t.sort().sbits()
            if d in (z3.Z3_OP_FPA_TO_FP, z3.Z3_OP_FPA_TO_FP_UNSIGNED): name += '_from%d' % (ch[-1].size() if z3.is_bv(ch[-1]) else 0)
            r = s.uf(name, len(args))(*args)
            w = t.sort().ebits() + t.sort().sbits()
            s.side.append(z3.And(r >= 0, r < (1 << w)))
        s.cache[k] = r
        return r

    def bv(s, t):
        k = t.get_id()
        if k in s.cache: return s.cache[k]
        w = t.size()
        d = t.decl().kind()
        ch = t.children()
        M = 1 << w
        if z3.is_bv_value(t): r = z3.IntVal(t.as_long())
        elif z3.is_const(t) and d == z3.Z3_OP_UNINTERPRETED:
            r = z3.Int(str(t) + '!int'); s.side.append(z3.And(r >= 0, r < M)); s.vars[k] = (t, r)
        elif d == z3.Z3_OP_BADD:
            r = s.bv(ch[0])
            for c in ch[1:]: r = r + s.bv(c)
            r = r % M
        elif d == z3.Z3_OP_BSUB: r = (s.bv(ch[0]) - s.bv(ch[1])) % M
        elif d == z3.Z3_OP_BMUL:
            r = s.bv(ch[0])
            for c in ch[1:]: r = r * s.bv(c)
            r = r % M
        elif d == z3.Z3_OP_BNEG: r = (-s.bv(ch[0])) % M
        elif d == z3.Z3_OP_BNOT: r = (M - 1) - s.bv(ch[0])
        elif d in (z3.Z3_OP_BUDIV, z3.Z3_OP_BUDIV_I):
            a, b = s.bv(ch[0]), s.bv(ch[1]); r = z3.If(b == 0, z3.IntVal(M - 1), a / b)
        elif d in (z3.Z3_OP_BUREM, z3.Z3_OP_BUREM_I):
            a, b = s.bv(ch[0]), s.bv(ch[1]); r = z3.If(b == 0, a, a % b)
        elif d in (z3.Z3_OP_BSDIV, z3.Z3_OP_BSDIV_I, z3.Z3_OP_BSREM, z3.Z3_OP_BSREM_I):
            a, b = s.signed(s.bv(ch[0]), w), s.signed(s.bv(ch[1]), w)
            absq = z3.If(a >= 0, a, -a) / z3.If(b >= 0, b, -b)
            q = z3.If((a >= 0) == (b >= 0), absq, -absq)
            if d in (z3.Z3_OP_BSDIV, z3.Z3_OP_BSDIV_I): r = z3.If(b == 0, z3.If(a >= 0, z3.IntVal(M - 1), z3.IntVal(1)), q % M)
            else: r = z3.If(b == 0, a % M, (a - q * b) % M)
        elif d == z3.Z3_OP_BSHL and z3.is_bv_value(ch[1]):
            c = ch[1].as_long(); r = z3.IntVal(0) if c >= w else (s.bv(ch[0]) * (1 << c)) % M
        elif d == z3.Z3_OP_BLSHR and z3.is_bv_value(ch[1]):
            c = ch[1].as_long(); r = z3.IntVal(0) if c >= w else s.bv(ch[0]) / (1 << c)
        elif d == z3.Z3_OP_BASHR and z3.is_bv_value(ch[1]):
            c = min(ch[1].as_long(), w - 1); r = (s.signed(s.bv(ch[0]), w) / (1 << c)) % M     # floor division = arithmetic shift
        elif d == z3.Z3_OP_CONCAT:
            r = z3.IntVal(0)
            for c in ch: r = r * (1 << c.size()) + s.bv(c)
        elif d == z3.Z3_OP_EXTRACT:
            hi, lo = t.params()[0], t.params()[1]
            r = (s.bv(ch[0]) / (1 << lo)) % (1 << (hi - lo + 1))
        elif d == z3.Z3_OP_ZERO_EXT: r = s.bv(ch[0])
        elif d == z3.Z3_OP_SIGN_EXT:
            w0 = ch[0].size(); a = s.bv(ch[0]); r = z3.If(a >= (1 << (w0 - 1)), a + (M - (1 << w0)), a)
        elif d == z3.Z3_OP_ITE: r = z3.If(s.boolean(ch[0]), s.bv(ch[1]), s.bv(ch[2]))
        elif d == z3.Z3_OP_BAND and any(z3.is_bv_value(c) for c in ch) and len(ch) == 2:
            c, x = (ch[0], ch[1]) if z3.is_bv_value(ch[0]) else (ch[1], ch[0])
            m = c.as_long()
            if m & (m + 1) == 0: r = s.bv(x) % (m + 1)                 # low mask
            elif m == M - 1: r = s.bv(x)
            else:
                # contiguous mask ((1<<hi)-1) ^ ((1<<lo)-1)
                lo = (m & -m).bit_length() - 1; hi = m.bit_length()
                if m == ((1 << hi) - 1) ^ ((1 << lo) - 1): r = ((s.bv(x) / (1 << lo)) % (1 << (hi - lo))) * (1 << lo)
                else: raise Untranslatable('bvand with mask %x' % m)
        elif d in (z3.Z3_OP_FPA_TO_SBV, z3.Z3_OP_FPA_TO_UBV):
            rm, x = ch
            xk = x.decl().kind(); xc = x.children()
            if d == z3.Z3_OP_FPA_TO_SBV and xk == z3.Z3_OP_FPA_TO_FP and len(xc) == 2 and z3.is_bv(xc[1]) and xc[1].size() <= 53:
                r = s.signed(s.bv(xc[1]), xc[1].size()) % M        # int -> double -> int is exact below 2^53
            else:
                args = [s.fp_bits(x)]
                r = s.uf('fp_to_%sbv%d_%s' % ('s' if d == z3.Z3_OP_FPA_TO_SBV else 'u', w, str(rm).replace('()', '')), 1)(*args)
                s.side.append(z3.And(r >= 0, r < M))
        elif d == z3.Z3_OP_FPA_TO_IEEE_BV: r = s.fp_bits(ch[0])
        elif d == z3.Z3_OP_BV2INT: raise Untranslatable('bv2int')
        else: raise Untranslatable('bv op %s' % t.decl().name())
        s.cache[k] = r
        return r

    def boolean(s, t):
        k = ('b', t.get_id())
        if k in s.cache: return s.cache[k]
        d = t.decl().kind(); ch = t.children()
        if z3.is_true(t) or z3.is_false(t): r = t
        elif d == z3.Z3_OP_AND: r = z3.And(*[s.boolean(c) for c in ch])
        elif d == z3.Z3_OP_OR: r = z3.Or(*[s.boolean(c) for c in ch])
        elif d == z3.Z3_OP_NOT: r = z3.Not(s.boolean(ch[0]))
        elif d == z3.Z3_OP_XOR: r = z3.Xor(s.boolean(ch[0]), s.boolean(ch[1]))
        elif d == z3.Z3_OP_IMPLIES: r = z3.Implies(s.boolean(ch[0]), s.boolean(ch[1]))
        elif d == z3.Z3_OP_ITE: r = z3.If(s.boolean(ch[0]), s.boolean(ch[1]), s.boolean(ch[2]))
        elif d in (z3.Z3_OP_EQ, z3.Z3_OP_IFF):
            if z3.is_bool(ch[0]): r = s.boolean(ch[0]) == s.boolean(ch[1])
            elif z3.is_bv(ch[0]): r = s.bv(ch[0]) == s.bv(ch[1])
            elif z3.is_fp(ch[0]): r = s.fp_bits(ch[0]) == s.fp_bits(ch[1])
            else: raise Untranslatable('eq on ' + str(ch[0].sort()))
        elif d == z3.Z3_OP_DISTINCT and len(ch) == 2:
            r = z3.Not(s.boolean(ch[0] == ch[1]))
        elif d in (z3.Z3_OP_ULEQ, z3.Z3_OP_ULT, z3.Z3_OP_UGEQ, z3.Z3_OP_UGT):
            a, b = s.bv(ch[0]), s.bv(ch[1])
            r = {z3.Z3_OP_ULEQ: a <= b, z3.Z3_OP_ULT: a < b, z3.Z3_OP_UGEQ: a >= b, z3.Z3_OP_UGT: a > b}[d]
        elif d in (z3.Z3_OP_SLEQ, z3.Z3_OP_SLT, z3.Z3_OP_SGEQ, z3.Z3_OP_SGT):
            w = ch[0].size(); a, b = s.signed(s.bv(ch[0]), w), s.signed(s.bv(ch[1]), w)
            r = {z3.Z3_OP_SLEQ: a <= b, z3.Z3_OP_SLT: a < b, z3.Z3_OP_SGEQ: a >= b, z3.Z3_OP_SGT: a > b}[d]
        elif d in (z3.Z3_OP_FPA_LE, z3.Z3_OP_FPA_LT, z3.Z3_OP_FPA_GE, z3.Z3_OP_FPA_GT, z3.Z3_OP_FPA_EQ, z3.Z3_OP_FPA_IS_NAN, z3.Z3_OP_FPA_IS_INF,
                   z3.Z3_OP_FPA_IS_ZERO, z3.Z3_OP_FPA_IS_NEGATIVE, z3.Z3_OP_FPA_IS_POSITIVE, z3.Z3_OP_FPA_IS_NORMAL, z3.Z3_OP_FPA_IS_SUBNORMAL):
            args = [s.fp_bits(c) for c in ch]
            p = s.uf('fpp_' + t.decl().name().replace('.', '_'), len(args))(*args)
            r = p != 0
        elif d in (z3.Z3_OP_BSMUL_NO_OVFL, z3.Z3_OP_BUMUL_NO_OVFL, z3.Z3_OP_BSMUL_NO_UDFL):
            w = ch[0].size()
            if d == z3.Z3_OP_BUMUL_NO_OVFL: r = s.bv(ch[0]) * s.bv(ch[1]) < (1 << w)
            else:
                p = s.signed(s.bv(ch[0]), w) * s.signed(s.bv(ch[1]), w)
                r = (p < (1 << (w - 1))) if d == z3.Z3_OP_BSMUL_NO_OVFL else (p >= -(1 << (w - 1)))
        else: raise Untranslatable('bool op %s' % t.decl().name())
        s.cache[k] = r
        return r

def solve_int(pc, cond, timeout_ms=60000, dump=None):
    """decide pc /\\ cond in the integer encoding. returns ('sat', {bvvar: value}) | ('unsat', None) | ('unknown', why)"""
    tr = Tr()
    try:
        fs = [tr.boolean(c) for c in pc] + [tr.boolean(cond)]
    except Untranslatable as e:
        return 'untranslatable', str(e)
    sol = z3.Solver(); sol.set('timeout', timeout_ms)
    for f in fs + tr.side: sol.add(f)
    if dump is not None: dump.append(sol.to_smt2())
    r = sol.check()
    if r == z3.sat:
        m = sol.model()
        return 'sat', {bv_: m.eval(iv, model_completion=True).as_long() for bv_, iv in tr.vars.values()}
    if r == z3.unsat: return 'unsat', None
    return 'unknown', sol.reason_unknown()
