"""models_rel.py - relational back end for the sqlite3 model: a small SQL interpreter over symbolic values.

The schema (tables, UNIQUE constraints, AUTOINCREMENT, triggers) is NOT written here: it is parsed from the DDL text that the
checks extract from the schema creator in /repo's current source (CREATE TABLE / CREATE TRIGGER statements), so a change to a
trigger in /repo changes the behaviour of the model.  The statements the library executes are parsed from their real SQL text.
Covered SQL (everything the 2.x table classes and the 2.x triggers use): INSERT [OR REPLACE] ... VALUES, UPDATE ... SET ... WHERE,
DELETE ... WHERE, SELECT <exprs | * | COUNT(*)> FROM <table|view> [WHERE] [ORDER BY col [DESC]] [LIMIT n]; expressions with
? parameters, literals, columns, NEW./OLD. references, + - unary minus, comparisons, AND/OR/NOT, IS [NOT] NULL, IFNULL,
scalar sub-selects, [NOT] IN (SELECT ...), RAISE(ABORT, ...).  Semantics follow the SQLite documentation: statement-level
atomicity, rowid / AUTOINCREMENT allocation, UNIQUE checked per modified row (NULLs distinct), BEFORE/AFTER row triggers with WHEN
and UPDATE OF, recursive_triggers = OFF (a trigger is not fired from within its own activation), foreign keys enforced only after
PRAGMA foreign_keys = ON.  The two recursive views of the Engine schema (PlaylistAllParent, PlaylistAllChildren) are built in
(ancestor / descendant closure) and their DDL text is compared with the text the built-in meaning was written for.
Values: ('int', python int | z3 BitVec 64) | ('text', tuple of byte values) | ('real', bits) | ('blob', tuple) | ('null',).
A comparison on symbolic values is decided by the executor (fork).  tools: differential validation against the real SQLite
(python sqlite3 module) in checks/rel_validate.py.
"""
import re, z3
from . import engine as E
from .models_sqlite import SQLITE_DONE, SQLITE_CONSTRAINT, SQLITE_ERROR

M64 = (1 << 64) - 1
KEYWORDS = {'IGNORE', 'SELECT', 'FROM', 'WHERE', 'AND', 'OR', 'NOT', 'NULL', 'IS', 'IN', 'INSERT', 'INTO', 'VALUES', 'UPDATE', 'SET', 'DELETE', 'REPLACE', 'ORDER', 'BY',
            'LIMIT', 'DESC', 'ASC', 'AS', 'CREATE', 'TRIGGER', 'TABLE', 'VIEW', 'INDEX', 'BEFORE', 'AFTER', 'INSTEAD', 'OF', 'ON', 'FOR', 'EACH', 'ROW', 'WHEN',
            'BEGIN', 'END', 'UNIQUE', 'PRIMARY', 'KEY', 'AUTOINCREMENT', 'CONSTRAINT', 'FOREIGN', 'REFERENCES', 'DEFAULT', 'CASCADE', 'RESTRICT',
            'JOIN', 'INNER', 'UNION', 'ALL', 'LIKE'}
TOK = re.compile(r"\s*(?:(\d+)|('(?:[^']|'')*')|(\[[^\]]*\]|\"[^\"]*\"|[A-Za-z_][A-Za-z_0-9]*)|(<>|!=|<=|>=|==|\|\||[-+*/(),;=<>?.]))")

class SqlError(Exception): pass
class Abort(Exception):
    """statement aborted (constraint violation / RAISE(ABORT)): all its effects are undone"""
    def __init__(s, code, msg): Exception.__init__(s, msg); s.code = code

def tokenize(sql):
    out = []; i = 0; n = len(sql)
    while i < n:
        m = TOK.match(sql, i)
        if not m:
            if sql[i:].strip() == '': break
            raise SqlError('cannot tokenize %r' % sql[i:i + 30])
        i = m.end()
        if m.group(1) is not None: out.append(('num', int(m.group(1))))
        elif m.group(2) is not None: out.append(('str', m.group(2)[1:-1].replace("''", "'")))
        elif m.group(3) is not None:
            w = m.group(3)
            if w[0] == '[': out.append(('id', w[1:-1]))
            elif w[0] == '"': out.append(('dq', w[1:-1]))       # SQLite: an identifier - or, when no such column exists, a string literal (legacy behaviour the 1.x triggers rely on: NEW.title || ";")
            elif w.upper() in KEYWORDS: out.append(('kw', w.upper()))
            else: out.append(('id', w))
        else: out.append(('op', m.group(4)))
    return out

class Parser:
    def __init__(s, sql):
        s.sql = sql; s.t = tokenize(sql); s.i = 0; s.nparam = 0
    def peek(s, k=0): return s.t[s.i + k] if s.i + k < len(s.t) else ('eof', None)
    def next(s):
        t = s.peek(); s.i += 1; return t
    def at(s, kind, val=None):
        t = s.peek(); return t[0] == kind and (val is None or t[1] == val)
    def at_kw(s, *ws): t = s.peek(); return t[0] == 'kw' and t[1] in ws
    def accept(s, kind, val=None):
        if s.at(kind, val): s.i += 1; return True
        return False
    def expect(s, kind, val=None):
        if not s.accept(kind, val): raise SqlError('expected %s %s at token %d of: %s' % (kind, val, s.i, s.sql[:200]))
    def ident(s):
        t = s.next()
        if t[0] in ('id', 'dq'): return t[1]
        if t[0] == 'kw': return t[1]          # keywords used as names (e.g. a column called key)
        raise SqlError('identifier expected in: ' + s.sql[:200])
    # ---- expressions
    def expr(s): return s.p_or()
    def p_or(s):
        a = s.p_and()
        while s.accept('kw', 'OR'): a = ('or', a, s.p_and())
        return a
    def p_and(s):
        a = s.p_not()
        while s.accept('kw', 'AND'): a = ('and', a, s.p_not())
        return a
    def p_not(s):
        if s.accept('kw', 'NOT'): return ('not', s.p_not())
        return s.p_cmp()
    def p_cmp(s):
        a = s.p_add()
        while True:
            t = s.peek()
            if t[0] == 'op' and t[1] in ('=', '==', '<>', '!=', '<', '<=', '>', '>='):
                s.i += 1; b = s.p_add()
                a = ('cmp', {'==': '=', '!=': '<>'}.get(t[1], t[1]), a, b)
            elif s.at_kw('IS'):
                s.i += 1; neg = s.accept('kw', 'NOT'); s.expect('kw', 'NULL'); a = ('isnull', a, neg)
            elif s.at_kw('IN') or (s.at_kw('NOT') and s.peek(1) == ('kw', 'IN')):
                neg = s.accept('kw', 'NOT'); s.expect('kw', 'IN'); s.expect('op', '(')
                if s.at_kw('SELECT'):
                    sub = s.select(); s.expect('op', ')'); a = ('in', a, sub, neg)
                else:
                    items = []
                    if not s.at('op', ')'):
                        items.append(s.expr())
                        while s.accept('op', ','): items.append(s.expr())
                    s.expect('op', ')'); a = ('inlist', a, items, neg)
            elif s.at_kw('LIKE') or (s.at_kw('NOT') and s.peek(1) == ('kw', 'LIKE')):
                neg = s.accept('kw', 'NOT'); s.expect('kw', 'LIKE'); b = s.p_add(); a = ('like', a, b, neg)
            else: return a
    def p_add(s):
        a = s.p_mul()
        while s.at('op', '+') or s.at('op', '-') or s.at('op', '||'):
            op = s.next()[1]; a = ('bin', op, a, s.p_mul())
        return a
    def p_mul(s):
        a = s.p_unary()
        while s.at('op', '*') or s.at('op', '/'):
            op = s.next()[1]; a = ('bin', op, a, s.p_unary())
        return a
    def p_unary(s):
        if s.accept('op', '-'): return ('neg', s.p_unary())
        if s.accept('op', '+'): return s.p_unary()
        return s.p_primary()
    def p_primary(s):
        t = s.next()
        if t[0] == 'num': return ('lit', ('int', t[1]))
        if t[0] == 'str': return ('lit', ('text', tuple(t[1].encode('utf-8'))))
        if t == ('op', '?'): s.nparam += 1; return ('param', s.nparam)
        if t == ('kw', 'NULL'): return ('lit', ('null',))
        if t == ('op', '('):
            if s.at_kw('SELECT'):
                sub = s.select(); s.expect('op', ')'); return ('subq', sub)
            e = s.expr(); s.expect('op', ')'); return e
        if t[0] == 'dq' and not s.at('op', '(') and not s.at('op', '.'): return ('dq', t[1])
        if t[0] in ('id', 'kw', 'dq'):
            name = t[1]
            if t[0] == 'id' and name.upper() in ('TRUE', 'FALSE') and not s.at('op', '(') and not s.at('op', '.'): return ('lit', ('int', 1 if name.upper() == 'TRUE' else 0))
            if s.at('op', '('):
                s.i += 1; args = []
                if s.accept('op', '*'): args = ['*']
                elif not s.at('op', ')'):
                    args.append(s.expr())
                    while s.accept('op', ','): args.append(s.expr())
                s.expect('op', ')')
                return ('call', name.upper(), args)
            if s.accept('op', '.'):
                col = s.ident(); return ('col', name.lower(), col.lower())
            return ('col', None, name.lower())
        raise SqlError('unexpected token %r in: %s' % (t, s.sql[:200]))
    # ---- statements
    def qname(s):
        """[schema .] name  -> name (the attached-database qualifier of the 1.x schemas is dropped: names are unique across the two files)"""
        n = s.ident()
        if s.accept('op', '.'): n = s.ident()
        return n
    def tableref(s):
        t = s.qname(); alias = None
        if s.accept('kw', 'AS'): alias = s.ident()
        elif s.at('id'): alias = s.ident()
        return (t, alias)
    def select(s):
        left = s.select_core()
        while s.at_kw('UNION'):
            s.next(); allq = s.accept('kw', 'ALL')
            right = s.select_core()
            left = {'k': 'compound', 'all': allq, 'left': left, 'right': right}
        return left
    def select_core(s):
        s.expect('kw', 'SELECT')
        cols = []
        while True:
            if s.accept('op', '*'): cols.append(('star', None))
            else:
                e = s.expr(); alias = None
                if s.accept('kw', 'AS'): alias = s.ident()
                cols.append((e, alias))
            if not s.accept('op', ','): break
        frm = []; joins = []; where = None; order = None; limit = None
        if s.accept('kw', 'FROM'):
            frm.append(s.tableref())
            while s.at_kw('JOIN', 'INNER'):
                s.accept('kw', 'INNER'); s.expect('kw', 'JOIN'); frm.append(s.tableref())
                if s.accept('kw', 'ON'): joins.append(s.expr())
        if s.accept('kw', 'WHERE'): where = s.expr()
        if s.accept('kw', 'ORDER'):
            s.expect('kw', 'BY'); oc = s.expr(); desc = False
            if s.accept('kw', 'DESC'): desc = True
            else: s.accept('kw', 'ASC')
            order = (oc, desc)
        if s.accept('kw', 'LIMIT'): limit = s.next()[1]
        for j in joins: where = j if where is None else ('and', j, where)
        return {'k': 'select', 'cols': cols, 'from': frm, 'table': frm[0][0] if frm else None, 'alias': frm[0][1] if frm else None, 'where': where, 'order': order, 'limit': limit}
    def statement(s):
        if s.at_kw('SELECT'): return s.select()
        if s.at_kw('INSERT', 'REPLACE'):
            replace = False; ignore = False
            if s.accept('kw', 'REPLACE'): replace = True
            else:
                s.expect('kw', 'INSERT')
                if s.accept('kw', 'OR'):
                    if s.accept('kw', 'IGNORE'): ignore = True
                    else: s.expect('kw', 'REPLACE'); replace = True
            s.expect('kw', 'INTO'); table = s.qname()
            cols = None
            if s.accept('op', '('):
                cols = [s.ident().lower()]
                while s.accept('op', ','): cols.append(s.ident().lower())
                s.expect('op', ')')
            if s.at_kw('SELECT'):
                return {'k': 'insert', 'table': table, 'cols': cols, 'tuples': None, 'select': s.select(), 'replace': replace, 'ignore': ignore}
            s.expect('kw', 'VALUES'); tuples = []
            while True:
                s.expect('op', '('); vals = [s.expr()]
                while s.accept('op', ','): vals.append(s.expr())
                s.expect('op', ')'); tuples.append(vals)
                if not s.accept('op', ','): break
            return {'k': 'insert', 'table': table, 'cols': cols, 'tuples': tuples, 'replace': replace, 'ignore': ignore}
        if s.accept('kw', 'UPDATE'):
            table = s.qname()
            s.expect('kw', 'SET'); sets = []
            while True:
                c = s.ident().lower(); s.expect('op', '='); sets.append((c, s.expr()))
                if not s.accept('op', ','): break
            where = s.expr() if s.accept('kw', 'WHERE') else None
            return {'k': 'update', 'table': table, 'sets': sets, 'where': where}
        if s.accept('kw', 'DELETE'):
            s.expect('kw', 'FROM'); table = s.qname()
            where = s.expr() if s.accept('kw', 'WHERE') else None
            return {'k': 'delete', 'table': table, 'where': where}
        raise SqlError('unsupported statement: ' + s.sql[:120])
    def finish(s):
        s.accept('op', ';')
        if s.peek()[0] != 'eof': raise SqlError('trailing tokens after statement: %r in %s' % (s.peek(), s.sql[:200]))

_STMT_CACHE = {}
def parse_statement(sql):
    r = _STMT_CACHE.get(sql)
    if r is None:
        p = Parser(sql); st = p.statement(); p.finish(); st['nparam'] = p.nparam
        r = _STMT_CACHE[sql] = st
    return r

# ---------------------------------------------------------------------------------------------------------------- DDL
class Schema:
    """immutable after construction: shared by all states"""
    def __init__(s, ddl):
        s.tables = {}; s.triggers = []; s.views = {}; s.view_defs = {}; s.unparsed = []
        for sql in ddl:
            try: s.add(sql)
            except SqlError as e: s.unparsed.append((sql[:100], str(e)))
    def add(s, sql):
        p = Parser(sql)
        if not p.accept('kw', 'CREATE'): return
        if p.accept('kw', 'UNIQUE'):
            p.expect('kw', 'INDEX'); name = p.qname(); p.expect('kw', 'ON'); table = p.qname().lower(); p.expect('op', '(')
            cols = [p.ident().lower()]
            while p.accept('op', ','): cols.append(p.ident().lower())
            if table in s.tables: s.tables[table]['uniq'].append(tuple(cols))
            return
        if p.accept('kw', 'INDEX'): return
        if p.accept('kw', 'VIEW'):
            name = p.qname(); s.views[name.lower()] = re.sub(r'\s+', ' ', sql.strip().rstrip(';')).strip()
            # a plain SELECT view (projection / filter / inner join) is given its meaning generically; WITH (recursive) views stay text only
            try:
                vcols = None
                if p.accept('op', '('):
                    vcols = [p.ident().lower()]
                    while p.accept('op', ','): vcols.append(p.ident().lower())
                    p.expect('op', ')')
                p.expect('kw', 'AS')
                if p.at_kw('SELECT'):
                    sel = p.select(); p.finish()
                    s.view_defs[name.lower()] = {'cols': vcols, 'select': sel}
            except SqlError: pass
            return
        if p.accept('kw', 'TABLE'):
            if p.peek()[0] == 'id' and p.peek()[1].upper() == 'IF': p.next(); p.next(); p.next()          # IF NOT EXISTS
            name = p.qname(); p.expect('op', '(')
            t = {'name': name, 'cols': [], 'uniq': [], 'pk': None, 'autoinc': False, 'fks': [], 'types': {}, 'defaults': {}}
            while True:
                if p.at_kw('CONSTRAINT', 'UNIQUE', 'PRIMARY', 'FOREIGN'):
                    if p.accept('kw', 'CONSTRAINT'): p.ident()
                    if p.accept('kw', 'UNIQUE'):
                        p.expect('op', '('); cols = [p.ident().lower()]
                        while p.accept('op', ','): cols.append(p.ident().lower())
                        p.expect('op', ')'); t['uniq'].append(tuple(cols))
                    elif p.accept('kw', 'PRIMARY'):
                        p.expect('kw', 'KEY'); p.expect('op', '('); cols = [p.ident().lower()]
                        while p.accept('op', ','): cols.append(p.ident().lower())
                        p.expect('op', ')'); t['uniq'].append(tuple(cols)); t['pkcols'] = tuple(cols)
                    elif p.accept('kw', 'FOREIGN'):
                        p.expect('kw', 'KEY'); p.expect('op', '('); fc = [p.ident().lower()]
                        while p.accept('op', ','): fc.append(p.ident().lower())
                        p.expect('op', ')'); p.expect('kw', 'REFERENCES')
                        rt = p.qname().lower(); p.expect('op', '('); rc = [p.ident().lower()]
                        while p.accept('op', ','): rc.append(p.ident().lower())
                        p.expect('op', ')'); action = None
                        fc = tuple(fc); rc = tuple(rc)
                        while p.at_kw('ON'):
                            p.next(); ev = p.next()[1]; a1 = p.next()[1]
                            if a1 == 'SET': a1 = 'SET ' + str(p.next()[1])
                            if ev == 'DELETE': action = a1
                        t['fks'].append((fc, rt, rc, action))
                else:
                    col = p.ident().lower(); t['cols'].append(col); typ = []
                    # column type and constraints up to the next top-level comma
                    depth = 0
                    while not (p.peek()[0] == 'eof' or (depth == 0 and (p.at('op', ',') or p.at('op', ')')))):
                        tk = p.next()
                        if tk == ('op', '('): depth += 1
                        elif tk == ('op', ')'): depth -= 1
                        typ.append(tk)
                    words = [str(x[1]).upper() for x in typ]
                    t['types'][col] = words[0] if words else ''
                    if 'DEFAULT' in words:
                        d = typ[words.index('DEFAULT') + 1]
                        if d[0] == 'num': t['defaults'][col] = ('int', d[1])
                        elif d[0] == 'str': t['defaults'][col] = ('text', tuple(d[1].encode()))
                    if 'PRIMARY' in words:
                        if words and words[0] == 'INTEGER': t['pk'] = col
                        else: t['uniq'].append((col,))
                        if 'AUTOINCREMENT' in words: t['autoinc'] = True
                    elif 'UNIQUE' in words: t['uniq'].append((col,))
                    if 'REFERENCES' in words:
                        k = words.index('REFERENCES'); rt = str(typ[k + 1][1]).lower(); rc = str(typ[k + 3][1]).lower(); action = None
                        for j in range(k, len(words) - 2):
                            if words[j] == 'ON' and words[j + 1] == 'DELETE': action = words[j + 2] if words[j + 2] != 'SET' else 'SET ' + words[j + 3]
                        t['fks'].append(((col,), rt, (rc,), action))
                if not p.accept('op', ','): break
            p.expect('op', ')')
            pkc = t.get('pkcols')
            if t['pk'] is None and pkc and len(pkc) == 1 and t['types'].get(pkc[0]) == 'INTEGER':
                t['pk'] = pkc[0]; t['uniq'] = [u for u in t['uniq'] if u != pkc]          # PRIMARY KEY (x) on one INTEGER column is the rowid as well
            s.tables[name.lower()] = t
            return
        if p.accept('kw', 'TRIGGER'):
            name = p.qname(); timing = p.next()[1]
            if timing == 'INSTEAD': p.expect('kw', 'OF')
            ev = p.next()[1]; ofcols = None
            if ev == 'UPDATE' and p.accept('kw', 'OF'):
                ofcols = [p.ident().lower()]
                while p.accept('op', ','): ofcols.append(p.ident().lower())
            p.expect('kw', 'ON'); table = p.qname().lower()
            if p.accept('kw', 'FOR'): p.expect('kw', 'EACH'); p.expect('kw', 'ROW')
            when = p.expr() if p.accept('kw', 'WHEN') else None
            p.expect('kw', 'BEGIN'); body = []
            while not p.at_kw('END'):
                p.nparam = 0; body.append(p.statement()); p.expect('op', ';')
            p.expect('kw', 'END')
            s.triggers.append({'name': name, 'timing': timing, 'event': ev, 'of': ofcols, 'table': table, 'when': when, 'body': body,
                               'text': re.sub(r'\s+', ' ', sql.strip())})
            return

VIEW_ALL_PARENT = ('CREATE VIEW PlaylistAllParent AS WITH FindAllParent AS ( SELECT id, parentListId FROM Playlist UNION ALL SELECT recursiveCTE.id, Plist.parentListId '
                   'FROM Playlist Plist INNER JOIN FindAllParent recursiveCTE ON recursiveCTE.parentListId = Plist.id ) SELECT * FROM FindAllParent')
VIEW_ALL_CHILDREN = ('CREATE VIEW PlaylistAllChildren AS WITH FindAllChild AS ( SELECT id, id as childListId FROM Playlist UNION ALL SELECT recursiveCTE.id, Plist.id '
                     'FROM Playlist Plist INNER JOIN FindAllChild recursiveCTE ON recursiveCTE.childListId = Plist.parentListId ) SELECT * FROM FindAllChild WHERE id <> childListId')

class RelDB:
    def __init__(s, schema):
        s.schema = schema; s.rows = {t: {} for t in schema.tables}; s.seq = {}; s.fk_on = False; s.order = {}
    def clone(s):
        n = RelDB.__new__(RelDB); n.schema = s.schema; n.seq = dict(s.seq); n.fk_on = s.fk_on
        n.rows = {t: {k: dict(r) for k, r in rows.items()} for t, rows in s.rows.items()}
        return n
    def snapshot(s): return ({t: {k: dict(r) for k, r in rows.items()} for t, rows in s.rows.items()}, dict(s.seq))
    def restore(s, snap): s.rows = {t: {k: dict(r) for k, r in rows.items()} for t, rows in snap[0].items()}; s.seq = dict(snap[1])

def install_rel(eng, cfg):
    """cfg: ddl = [CREATE ... statements of the schema under test]; plus the keys of models_sqlite.install"""
    from . import models_sqlite
    cfg = dict(cfg or {})
    schema = Schema(cfg.get('ddl', []))
    eng.rel_schema = schema
    for vname, vtext in (('playlistallparent', VIEW_ALL_PARENT), ('playlistallchildren', VIEW_ALL_CHILDREN)):
        if vname in schema.views and schema.views[vname] != vtext:
            schema.views[vname + '!changed'] = True

    def db_of(q):
        if getattr(q, 'rel', None) is None:
            q.rel = RelDB(schema)
            # rows the schema creator itself inserts with literal statements (e.g. the default AlbumArt / Historylist / Preparelist rows of 1.x)
            for sql in cfg.get('seed', []):
                try: run(Ctx(None, q.rel, {}, sql), parse_statement(sql))
                except (SqlError, Abort) as e: raise E.Inconclusive('sqlmodel', 'creator statement not executable by the model: %s (%s)' % (sql[:80], e))
            if getattr(q, 'txn', 0): q.rel_snapshot = q.rel.snapshot()       # created inside an open transaction: rollback returns to the empty store
        return q.rel
    def sgn(x): return E.to_signed(x & M64, 64) if x.__class__ is int else x

    class Ctx:
        def __init__(c, st, db, binds, sql): c.st = st; c.db = db; c.binds = binds; c.sql = sql; c.new = None; c.old = None; c.active = []; c.agg = None

    # ---- three-valued comparison of two values; returns True / False / None (NULL)
    def cmp_vals(ctx, op, a, b):
        if a[0] == 'null' or b[0] == 'null': return None
        st = ctx.st
        if a[0] == 'int' and b[0] == 'int':
            x, y = a[1], b[1]
            if x.__class__ is int and y.__class__ is int:
                x, y = sgn(x), sgn(y)
                return {'=': x == y, '<>': x != y, '<': x < y, '<=': x <= y, '>': x > y, '>=': x >= y}[op]
            X, Y = E.bv(x, 64), E.bv(y, 64)
            cond = {'=': X == Y, '<>': X != Y, '<': X < Y, '<=': X <= Y, '>': X > Y, '>=': X >= Y}[op]
            return bool(eng.decide(st, cond))
        if a[0] in ('text', 'blob') and b[0] == a[0]:
            if op not in ('=', '<>'): raise E.Inconclusive('sqlmodel', 'ordering comparison of text values')
            eq = True
            if len(a[1]) != len(b[1]): eq = False
            else:
                for x, y in zip(a[1], b[1]):
                    if x.__class__ is int and y.__class__ is int:
                        if x != y: eq = False; break
                    elif not eng.decide(st, E.bv(x, 8) == E.bv(y, 8)): eq = False; break
            return eq if op == '=' else not eq
        if {a[0], b[0]} == {'int', 'text'}:
            # SQLite: an INTEGER is always less than a TEXT value when no affinity conversion applies
            if op == '=': return False
            if op == '<>': return True
        raise E.Inconclusive('sqlmodel', 'comparison %s between %s and %s in: %s' % (op, a[0], b[0], ctx.sql[:80]))

    def truth(v):
        """SQL value -> True/False/None"""
        if v is True or v is False or v is None: return v
        if v[0] == 'null': return None
        if v[0] == 'int':
            if v[1].__class__ is int: return v[1] & M64 != 0
            raise E.Inconclusive('sqlmodel', 'symbolic integer used as a truth value')
        raise E.Inconclusive('sqlmodel', 'non-integer truth value')
    def as_val(b): return ('null',) if b is None else ('int', 1 if b else 0)

    def lookup(ctx, row_env, qual, col):
        if qual in ('new', 'old'):
            r = ctx.new if qual == 'new' else ctx.old
            if r is None: raise SqlError('%s.%s outside a trigger' % (qual, col))
            if col == 'rowid' and 'rowid' not in r: col = r.get('!pk', col)
            if col not in r: raise E.Inconclusive('sqlmodel', 'no column %s in %s row' % (col, qual))
            return r[col]
        for names, row in row_env:
            if qual is None or qual in names:
                if col in row: return row[col]
        # unqualified names fall back to NEW/OLD? (not in SQLite) -> error
        raise E.Inconclusive('sqlmodel', 'unknown column %s%s in: %s' % ((qual + '.') if qual else '', col, ctx.sql[:100]))

    def ev(ctx, e, row_env):
        k = e[0]
        if k == 'lit':
            v = e[1]
            return ('int', v[1] & M64) if v[0] == 'int' else v
        if k == 'val': return e[1]
        if k == 'param':
            if e[1] not in ctx.binds: raise E.Bug('assert', 'SQL parameter %d of "%s" was never bound' % (e[1], ctx.sql[:60]), eng._m(ctx.st))
            return ctx.binds[e[1]]
        if k == 'col': return lookup(ctx, row_env, e[1], e[2])
        if k == 'dq':
            for names, row in row_env:
                if e[1].lower() in row: return row[e[1].lower()]
            return ('text', tuple(e[1].encode('utf-8')))
        if k == 'neg':
            v = ev(ctx, e[1], row_env)
            if v[0] == 'null': return v
            if v[0] != 'int': raise E.Inconclusive('sqlmodel', 'negation of a non-integer')
            return ('int', (-v[1]) & M64 if v[1].__class__ is int else E.simp(-E.bv(v[1], 64)))
        if k == 'bin':
            a, b = ev(ctx, e[2], row_env), ev(ctx, e[3], row_env)
            if a[0] == 'null' or b[0] == 'null': return ('null',)
            if e[1] == '||':
                if a[0] == 'text' and b[0] == 'text': return ('text', tuple(a[1]) + tuple(b[1]))
                raise E.Inconclusive('sqlmodel', 'string concatenation of non-text values')
            if a[0] != 'int' or b[0] != 'int': raise E.Inconclusive('sqlmodel', 'arithmetic on non-integers')
            x, y = a[1], b[1]
            if x.__class__ is int and y.__class__ is int:
                x, y = sgn(x), sgn(y)
                if e[1] == '+': r = x + y
                elif e[1] == '-': r = x - y
                elif e[1] == '*': r = x * y
                else:
                    if y == 0: return ('null',)
                    r = abs(x) // abs(y) * (1 if (x < 0) == (y < 0) else -1)
                if not (-(1 << 63) <= r < (1 << 63)): raise E.Inconclusive('sqlmodel', 'integer overflow in SQL arithmetic (SQLite switches to REAL)')
                return ('int', r & M64)
            X, Y = E.bv(x, 64), E.bv(y, 64)
            if e[1] == '+': return ('int', E.simp(X + Y))
            if e[1] == '-': return ('int', E.simp(X - Y))
            raise E.Inconclusive('sqlmodel', 'symbolic multiplication/division in SQL')
        if k == 'cmp': return as_val(cmp_vals(ctx, e[1], ev(ctx, e[2], row_env), ev(ctx, e[3], row_env)))
        if k == 'isnull':
            v = ev(ctx, e[1], row_env); r = v[0] == 'null'
            return as_val(not r if e[2] else r)
        if k == 'and':
            a = truth(ev(ctx, e[1], row_env))
            if a is False: return as_val(False)
            b = truth(ev(ctx, e[2], row_env))
            if b is False: return as_val(False)
            return as_val(None if (a is None or b is None) else True)
        if k == 'or':
            a = truth(ev(ctx, e[1], row_env))
            if a is True: return as_val(True)
            b = truth(ev(ctx, e[2], row_env))
            if b is True: return as_val(True)
            return as_val(None if (a is None or b is None) else False)
        if k == 'not':
            a = truth(ev(ctx, e[1], row_env)); return as_val(None if a is None else not a)
        if k == 'subq':
            rows = run_select(ctx, e[1], row_env)
            return rows[0][0] if rows else ('null',)
        if k == 'in':
            v = ev(ctx, e[1], row_env); rows = run_select(ctx, e[2], row_env); found = False; unk = v[0] == 'null'
            for r in rows:
                c = cmp_vals(ctx, '=', v, r[0])
                if c is True: found = True; break
                if c is None: unk = True
            res = True if found else (None if unk and rows else False)
            if e[3]: res = None if res is None else not res
            return as_val(res)
        if k == 'inlist':
            v = ev(ctx, e[1], row_env); found = False; unk = v[0] == 'null'
            for it in e[2]:
                c = cmp_vals(ctx, '=', v, ev(ctx, it, row_env))
                if c is True: found = True; break
                if c is None: unk = True
            res = True if found else (None if unk and e[2] else False)
            if e[3]: res = None if res is None else not res
            return as_val(res)
        if k == 'like':
            t, pat = ev(ctx, e[1], row_env), ev(ctx, e[2], row_env)
            if t[0] == 'null' or pat[0] == 'null': return ('null',)
            if t[0] != 'text' or pat[0] != 'text': raise E.Inconclusive('sqlmodel', 'LIKE on non-text values')
            st = ctx.st
            def ascii_only(bs):
                for b in bs:
                    if b.__class__ is int:
                        if b >= 0x80: raise E.Inconclusive('sqlmodel', 'LIKE / length / substr on non-ASCII text (UTF-8 characters are not modelled)')
                    elif not eng.decide(st, z3.ULT(E.bv(b, 8), 0x80)): raise E.Inconclusive('sqlmodel', 'LIKE / length / substr on non-ASCII text (UTF-8 characters are not modelled)')
            ascii_only(t[1]); ascii_only(pat[1])
            def is_ch(b, ch): return b == ch if b.__class__ is int else bool(eng.decide(st, E.bv(b, 8) == ch))
            def fold(b):
                if b.__class__ is int: return b + 0x20 if 0x41 <= b <= 0x5a else b
                B = E.bv(b, 8); return z3.If(z3.And(z3.UGE(B, 0x41), z3.ULE(B, 0x5a)), B + 0x20, B)
            def eq_ci(a_, b_):       # SQLite's default LIKE: case-insensitive for ASCII letters only
                fa, fb = fold(a_), fold(b_)
                if fa.__class__ is int and fb.__class__ is int: return fa == fb
                return bool(eng.decide(st, E.bv(fa, 8) == E.bv(fb, 8)))
            def like(p_, t_):
                if not p_: return not t_
                c = p_[0]
                if is_ch(c, 0x25): return any(like(p_[1:], t_[i:]) for i in range(len(t_) + 1))
                if not t_: return False
                if is_ch(c, 0x5f) or eq_ci(c, t_[0]): return like(p_[1:], t_[1:])
                return False
            r = like(tuple(pat[1]), tuple(t[1]))
            return as_val(not r if e[3] else r)
        if k == 'call':
            f = e[1]
            if f in ('LENGTH', 'SUBSTR', 'SUBSTRING'):
                a0 = ev(ctx, e[2][0], row_env)
                if a0[0] == 'null': return ('null',)
                if a0[0] != 'text': raise E.Inconclusive('sqlmodel', '%s of a non-text value' % f)
                for b in a0[1]:
                    if (b.__class__ is int and b >= 0x80) or (b.__class__ is not int and not eng.decide(ctx.st, z3.ULT(E.bv(b, 8), 0x80))):
                        raise E.Inconclusive('sqlmodel', 'LIKE / length / substr on non-ASCII text (UTF-8 characters are not modelled)')
                if f == 'LENGTH': return ('int', len(a0[1]))
                def iarg(i):
                    v = ev(ctx, e[2][i], row_env)
                    if v[0] != 'int' or v[1].__class__ is not int: raise E.Inconclusive('sqlmodel', 'substr with a non-constant position')
                    return sgn(v[1])
                start = iarg(1); n = len(a0[1])
                if start <= 0: raise E.Inconclusive('sqlmodel', 'substr with a position <= 0')
                ln = iarg(2) if len(e[2]) > 2 else n
                if ln < 0: raise E.Inconclusive('sqlmodel', 'substr with a negative length')
                return ('text', tuple(a0[1][start - 1:start - 1 + ln]))
            if f == 'COALESCE':
                for a_ in e[2]:
                    v = ev(ctx, a_, row_env)
                    if v[0] != 'null': return v
                return ('null',)
            if f == 'IFNULL':
                a = ev(ctx, e[2][0], row_env)
                return a if a[0] != 'null' else ev(ctx, e[2][1], row_env)
            if f in AGGS:
                envs = ctx.agg
                if envs is None: raise E.Inconclusive('sqlmodel', 'aggregate %s outside a select list' % f)
                if f == 'COUNT' and e[2] == ['*']: return ('int', len(envs))
                ctx.agg = None
                try: vals = [ev(ctx, e[2][0], env + list(row_env)) for env in envs]
                finally: ctx.agg = envs
                vals = [v for v in vals if v[0] != 'null']
                if f == 'COUNT': return ('int', len(vals))
                if not vals: return ('null',)
                ks = []
                for v in vals:
                    if v[0] != 'int': raise E.Inconclusive('sqlmodel', '%s over non-integers' % f)
                    x = v[1]
                    if x.__class__ is not int: x = eng.concretize(ctx.st, x, 'aggregate operand')
                    ks.append(sgn(x))
                r = max(ks) if f == 'MAX' else (min(ks) if f == 'MIN' else sum(ks))
                return ('int', r & M64)
            if f == 'RAISE':
                msg = e[2][1][1][1] if len(e[2]) > 1 and e[2][1][0] == 'lit' else ()
                raise Abort(SQLITE_CONSTRAINT, 'RAISE: ' + bytes(msg).decode('latin1'))
            if f == 'STRFTIME':
                # the current time: an arbitrary value in a sane range (stored into NUMERIC-affinity columns, i.e. as an integer)
                if ctx.st is None: return ('int', 0)
                v = ctx.st.new_input('db_time', 64, 'env')
                ctx.st.var_ranges = dict(ctx.st.var_ranges); ctx.st.var_ranges[v.get_id()] = (0, 1 << 32); ctx.st.pc.append(z3.ULE(v, 1 << 32))
                return ('int', v)
            raise E.Inconclusive('sqlmodel', 'SQL function %s' % f)
        raise E.Inconclusive('sqlmodel', 'expression kind %s' % k)

    # ---- relations: base tables and the two recursive views
    def relation(ctx, name):
        """-> list of (rowid-or-None, row dict)"""
        n = name.lower(); db = ctx.db
        if n in db.rows: return [(k, db.rows[n][k]) for k in sorted(db.rows[n])]
        if n == 'sqlite_sequence': return [(None, {'name': ('text', tuple(t.encode())), 'seq': ('int', v & M64)}) for t, v in sorted(db.seq.items())]
        if n in ('playlistallparent', 'playlistallchildren'):
            if schema.views.get(n + '!changed'): raise E.Inconclusive('sqlmodel', 'the DDL of view %s differs from the text its built-in meaning was written for' % name)
            pl = db.rows.get('playlist', {})
            def conc(v, what):
                if v[0] == 'null': return None
                if v[0] != 'int': raise E.Inconclusive('sqlmodel', 'non-integer %s' % what)
                x = v[1]
                if x.__class__ is not int: x = eng.concretize(ctx.st, x, what)
                return sgn(x)
            ids = {k: conc(r.get('parentlistid', ('null',)), 'parentListId') for k, r in pl.items()}
            out = []
            if n == 'playlistallparent':
                for k in sorted(ids):
                    cur = ids[k]; out.append((None, {'id': ('int', k & M64), 'parentlistid': pl[k].get('parentlistid', ('null',))})); steps = 0
                    while cur is not None and cur in ids:
                        nxt = ids[cur]; out.append((None, {'id': ('int', k & M64), 'parentlistid': pl[cur].get('parentlistid', ('null',))})); cur = nxt; steps += 1
                        if steps > len(ids) + 1: raise E.Bug('nonterm', 'the recursive view PlaylistAllParent does not terminate: the parent links of Playlist contain a cycle (SQLite loops forever)', eng._m(ctx.st))
            else:
                kids = {}
                for k, p in ids.items(): kids.setdefault(p, []).append(k)
                for k in sorted(ids):
                    work = list(kids.get(k, [])); seen = 0
                    while work:
                        c = work.pop(0); out.append((None, {'id': ('int', k & M64), 'childlistid': ('int', c & M64)})); seen += 1
                        if seen > len(ids) * len(ids) + 1: raise E.Bug('nonterm', 'the recursive view PlaylistAllChildren does not terminate: the parent links of Playlist contain a cycle (SQLite loops forever)', eng._m(ctx.st))
                        work.extend(kids.get(c, []))
            return out
        if n in schema.view_defs:
            vd = schema.view_defs[n]
            names_, rows_ = run_select_named(Ctx(ctx.st, ctx.db, {}, 'view ' + name), vd['select'], [])
            if vd['cols']: names_ = vd['cols']
            return [(None, dict(zip(names_, r))) for r in rows_]
        if n in schema.views: raise E.Inconclusive('sqlmodel', 'view %s is not modelled' % name)
        raise Abort(SQLITE_ERROR, 'no such table: ' + name)

    AGGS = ('MAX', 'MIN', 'COUNT', 'SUM')
    def has_agg(e):
        if not isinstance(e, tuple): return False
        if e and e[0] == 'call' and e[1] in AGGS: return True
        return any(has_agg(x) for x in e if isinstance(x, (tuple, list))) or any(has_agg(y) for x in e if isinstance(x, list) for y in x)
    def full_row(name, rid, row):
        tdef = schema.tables.get(name.lower())
        if tdef is None: return row
        r = {c: row.get(c, ('null',)) for c in tdef['cols']}
        if tdef['pk']: r['rowid'] = r[tdef['pk']]
        elif rid is not None: r['rowid'] = ('int', rid & M64)
        return r
    def out_name(c, i):
        if c[1]: return c[1].lower()
        if c[0] != 'star' and c[0][0] == 'col': return c[0][2]
        return 'col%d' % i
    def run_select_named(ctx, sel, outer_env):
        """-> (column names, rows)"""
        if sel['k'] == 'compound':
            ln, lr = run_select_named(ctx, sel['left'], outer_env); rn, rr = run_select_named(ctx, sel['right'], outer_env)
            rows = lr + rr
            if not sel['all']:
                out = []
                for r in rows:
                    dup = False
                    for o in out:
                        same = True
                        for x, y in zip(r, o):
                            if x[0] == 'null' and y[0] == 'null': continue
                            if cmp_vals(ctx, '=', x, y) is not True: same = False; break
                        if same: dup = True; break
                    if not dup: out.append(r)
                rows = out
            return ln, rows
        cols = sel['cols']
        if not sel['from']:
            if sel['where'] is not None and truth(ev(ctx, sel['where'], outer_env)) is not True: return [out_name(c, i) for i, c in enumerate(cols)], []
            return [out_name(c, i) for i, c in enumerate(cols)], [[ev(ctx, c[0], outer_env) for c in cols]]
        # cross product of the FROM items (inner joins: their ON conditions were folded into WHERE)
        envs = [[]]
        for tname_, alias in sel['from']:
            names = {tname_.lower()}
            if alias: names.add(alias.lower())
            rel = relation(ctx, tname_)
            envs = [e + [(names, full_row(tname_, rid, row))] for e in envs for rid, row in rel]
        matched = []
        for e in envs:
            env = e + list(outer_env)
            if sel['where'] is None or truth(ev(ctx, sel['where'], env)) is True: matched.append(env)
        if sel['order']:
            keyed = []
            for env in matched:
                v = ev(ctx, sel['order'][0], env)
                if v[0] == 'null': kk = (0, 0)
                elif v[0] == 'int':
                    x = v[1]
                    if x.__class__ is not int: x = eng.concretize(ctx.st, x, 'ORDER BY key')
                    kk = (1, sgn(x))
                else: raise E.Inconclusive('sqlmodel', 'ORDER BY on a non-integer')
                keyed.append((kk, env))
            keyed.sort(key=lambda t: t[0], reverse=sel['order'][1]); matched = [b for a, b in keyed]
        names_out = []
        for i, c in enumerate(cols):
            if c[0] == 'star':
                for tname_, alias in sel['from']:
                    tdef = schema.tables.get(tname_.lower())
                    names_out.extend(tdef['cols'] if tdef else view_columns(tname_))
            else: names_out.append(out_name(c, i))
        if any(c[0] != 'star' and has_agg(c[0]) for c in cols):
            old = ctx.agg; ctx.agg = matched
            try: row = [ev(ctx, c[0], list(outer_env)) for c in cols]
            finally: ctx.agg = old
            return names_out, [row]
        res = []
        for env in matched:
            out = []
            for c in cols:
                if c[0] == 'star':
                    for (tname_, alias), (nm_, r) in zip(sel['from'], env):
                        tdef = schema.tables.get(tname_.lower())
                        out.extend(r[x] for x in (tdef['cols'] if tdef else view_columns(tname_)))
                else: out.append(ev(ctx, c[0], env))
            res.append(out)
        if sel['limit'] is not None: res = res[:sel['limit']]
        return names_out, res
    def run_select(ctx, sel, outer_env): return run_select_named(ctx, sel, outer_env)[1]
    def view_columns(name):
        vd = schema.view_defs.get(name.lower())
        if vd is None: raise E.Inconclusive('sqlmodel', 'columns of view %s' % name)
        if vd['cols']: return vd['cols']
        sel = vd['select']
        while sel['k'] == 'compound': sel = sel['left']
        return [out_name(c, i) for i, c in enumerate(sel['cols'])]

    # ---- triggers
    def fire(ctx, timing, event, table, new, old, changed=None):
        for tg in reversed(schema.triggers):          # SQLite runs the triggers of one event most-recently-created first (observed; found by the differential validation)
            if tg['table'] != table or tg['timing'] != timing or tg['event'] != event: continue
            if tg['of'] is not None and changed is not None and not (set(tg['of']) & set(changed)): continue
            if tg['name'] in ctx.active: continue          # recursive_triggers = OFF
            sub = Ctx(ctx.st, ctx.db, {}, tg['text']); sub.new = new; sub.old = old; sub.active = ctx.active + [tg['name']]
            if tg['when'] is not None and truth(ev(sub, tg['when'], [])) is not True: continue
            for stmt in tg['body']: run(sub, stmt)

    def trow(tdef, row):
        r = {c: row.get(c, ('null',)) for c in tdef['cols']}
        if tdef['pk']: r['rowid'] = r[tdef['pk']]; r['!pk'] = tdef['pk']
        return r
    def rowid_of(ctx, v, what):
        if v[0] != 'int': raise E.Inconclusive('sqlmodel', 'non-integer rowid in ' + what)
        x = v[1]
        if x.__class__ is not int: x = eng.concretize(ctx.st, x, 'row id')
        return sgn(x)
    def check_unique(ctx, tdef, rid, row):
        t = ctx.db.rows[tdef['name'].lower()]
        for cols in tdef['uniq']:
            if any(row.get(c, ('null',))[0] == 'null' for c in cols): continue
            for k in sorted(t):
                if k == rid: continue
                o = t[k]; same = True
                for c in cols:
                    if cmp_vals(ctx, '=', row[c], o.get(c, ('null',))) is not True: same = False; break
                if same: return (cols, k)
        return None

    def run(ctx, stmt):
        k = stmt['k']; db = ctx.db
        if k == 'select':
            return run_select(ctx, stmt, [])
        tname = stmt['table'].lower()
        tdef = schema.tables.get(tname)
        # INSERT ... SELECT: the rows are computed first, then inserted like literal tuples
        if k == 'insert' and stmt.get('tuples') is None:
            rows_ = run_select(ctx, stmt['select'], [])
            stmt = dict(stmt, tuples=[[('val', v) for v in r] for r in rows_])
        if tdef is None:
            if tname in schema.views:
                # a write through a view runs only its INSTEAD OF triggers, once per affected view row
                def has_trigger(ev_): return any(tg['table'] == tname and tg['timing'] == 'INSTEAD' and tg['event'] == ev_ for tg in schema.triggers)
                n = 0
                if k == 'insert':
                    if not has_trigger('INSERT'): raise Abort(SQLITE_ERROR, 'cannot modify %s because it is a view' % stmt['table'])
                    vcols = stmt['cols'] or view_columns(tname)
                    for vals in stmt['tuples']:
                        new = {c: ('null',) for c in view_columns(tname)}
                        new.update({c: ev(ctx, e, []) for c, e in zip(vcols, vals)})
                        fire(ctx, 'INSTEAD', 'INSERT', tname, new, None); n += 1
                    return n
                evn = 'UPDATE' if k == 'update' else 'DELETE'
                if not has_trigger(evn): raise Abort(SQLITE_ERROR, 'cannot modify %s because it is a view' % stmt['table'])
                rows_ = [r for rid, r in relation(ctx, tname)]
                sel_rows = [r for r in rows_ if stmt['where'] is None or truth(ev(ctx, stmt['where'], [({tname}, r)])) is True]
                for r in sel_rows:
                    if k == 'update':
                        new = dict(r)
                        for c, e in stmt['sets']: new[c] = ev(ctx, e, [({tname}, r)])
                        fire(ctx, 'INSTEAD', 'UPDATE', tname, new, r, [c for c, e in stmt['sets']])
                    else: fire(ctx, 'INSTEAD', 'DELETE', tname, None, r)
                    n += 1
                return n
            raise Abort(SQLITE_ERROR, 'no such table: ' + stmt['table'])
        t = db.rows[tname]; names = {tname}; n = 0
        if k == 'insert':
            cols = stmt['cols'] or tdef['cols']; pending_seq = 0
            for vals in stmt['tuples']:
                if len(vals) != len(cols): raise Abort(SQLITE_ERROR, 'column / value count mismatch')
                row = dict(tdef['defaults'])
                for c, e in zip(cols, vals):
                    if c not in tdef['cols']: raise Abort(SQLITE_ERROR, 'table %s has no column named %s' % (tdef['name'], c))
                    row[c] = ev(ctx, e, [])
                pk = tdef['pk']; explicit = pk is not None and row.get(pk, ('null',))[0] != 'null'
                if explicit: rid = rowid_of(ctx, row[pk], 'INSERT')
                else:
                    rid = max(list(t) + [0]) + 1
                    if tdef['autoinc']: rid = max(rid, db.seq.get(tdef['name'], 0) + 1, pending_seq + 1)
                # BEFORE triggers see NEW.<pk> = -1 when the key is not given
                newb = trow(tdef, dict(row, **({pk: ('int', (rid if explicit else -1) & M64)} if pk else {})))
                fire(ctx, 'BEFORE', 'INSERT', tname, newb, None)
                if pk: row[pk] = ('int', rid & M64)
                # INSERT OR IGNORE: a row that conflicts with a key or UNIQUE constraint is skipped - not counted, last_insert_rowid() untouched, no AFTER trigger
                skipped = False
                if rid in t:
                    if stmt.get('ignore'): skipped = True
                    elif not stmt['replace']: raise Abort(SQLITE_CONSTRAINT, 'UNIQUE constraint failed: %s.%s' % (tdef['name'], pk))
                    else: del t[rid]
                while not skipped:
                    bad = check_unique(ctx, tdef, rid, row)
                    if not bad: break
                    if stmt.get('ignore'): skipped = True; break
                    if not stmt['replace']: raise Abort(SQLITE_CONSTRAINT, 'UNIQUE constraint failed: %s(%s)' % (tdef['name'], ','.join(bad[0])))
                    del t[bad[1]]
                if skipped: continue
                t[rid] = row; n += 1
                ctx.db.last_rowid = rid; pending_seq = max(pending_seq, rid)
                fire(ctx, 'AFTER', 'INSERT', tname, trow(tdef, row), None)
            # SQLite writes the AUTOINCREMENT counter back to sqlite_sequence when the statement ends: AFTER INSERT triggers still see the old value
            if tdef['autoinc'] and pending_seq: db.seq[tdef['name']] = max(db.seq.get(tdef['name'], 0), pending_seq)
            return n
        # UPDATE / DELETE: the set of affected rows is fixed first
        sel = []
        for rid in sorted(t):
            r = trow(tdef, t[rid])
            if stmt['where'] is None or truth(ev(ctx, stmt['where'], [(names, r)])) is True: sel.append(rid)
        if k == 'update':
            for rid in sel:
                if rid not in t: continue
                old = trow(tdef, t[rid]); row = dict(t[rid])
                for c, e in stmt['sets']:
                    if c not in tdef['cols']: raise Abort(SQLITE_ERROR, 'no such column: ' + c)
                    row[c] = ev(ctx, e, [(names, old)])
                changed = [c for c, e in stmt['sets']]
                new = trow(tdef, row)
                fire(ctx, 'BEFORE', 'UPDATE', tname, new, old, changed)
                if rid not in t: continue
                nrid = rid
                if tdef['pk']:
                    nrid = rowid_of(ctx, row[tdef['pk']], 'UPDATE')
                    if nrid != rid and nrid in t: raise Abort(SQLITE_CONSTRAINT, 'UNIQUE constraint failed: %s.%s' % (tdef['name'], tdef['pk']))
                bad = check_unique(ctx, tdef, rid, row)
                if bad: raise Abort(SQLITE_CONSTRAINT, 'UNIQUE constraint failed: %s(%s)' % (tdef['name'], ','.join(bad[0])))
                if nrid != rid: del t[rid]
                t[nrid] = row; n += 1
                fire(ctx, 'AFTER', 'UPDATE', tname, trow(tdef, row), old, changed)
            return n
        if k == 'delete':
            for rid in sel:
                if rid not in t: continue
                old = trow(tdef, t[rid])
                fire(ctx, 'BEFORE', 'DELETE', tname, None, old)
                if rid not in t: continue
                del t[rid]; n += 1
                if db.fk_on:
                    for ct, cdef in schema.tables.items():
                        for fc, rt, rc, action in cdef['fks']:
                            if rt != tname: continue
                            for crid in sorted(db.rows[ct]):
                                if crid not in db.rows[ct]: continue
                                if all(cmp_vals(ctx, '=', db.rows[ct][crid].get(f_, ('null',)), old.get(r_, ('null',))) is True for f_, r_ in zip(fc, rc)):
                                    if action == 'CASCADE':
                                        sub = {'k': 'delete', 'table': ct, 'where': ('cmp', '=', ('col', None, 'rowid'), ('lit', ('int', crid)))}
                                        run(ctx, sub)
                                    elif action == 'SET NULL': db.rows[ct][crid] = dict(db.rows[ct][crid], **{f_: ('null',) for f_ in fc})
                                    else: raise Abort(SQLITE_CONSTRAINT, 'FOREIGN KEY constraint failed')
                fire(ctx, 'AFTER', 'DELETE', tname, None, old)
            return n
        raise E.Inconclusive('sqlmodel', 'statement kind ' + k)

    def execute(st, q, s_):
        sql = s_.sql
        if s_.kind not in ('read', 'write'): return None
        up = sql.strip().upper()
        db = db_of(q)
        if up.startswith('PRAGMA'):
            m = re.match(r'PRAGMA\s+FOREIGN_KEYS\s*=\s*(\w+)', up)
            if m: db.fk_on = m.group(1) in ('ON', '1', 'TRUE', 'YES'); q.changes = 0; return SQLITE_DONE
            raise E.Inconclusive('sqlmodel', 'PRAGMA not modelled: ' + sql[:80])
        try: stmt = parse_statement(sql)
        except SqlError as e: raise E.Inconclusive('sqlmodel', 'cannot parse: %s (%s)' % (sql[:100], e))
        if len(s_.binds) != stmt['nparam'] and not all(i in s_.binds for i in range(1, stmt['nparam'] + 1)):
            raise E.Bug('assert', '%d parameters bound but the statement has %d placeholders: %s' % (len(s_.binds), stmt['nparam'], sql[:60]), eng._m(st))
        ctx = Ctx(st, db, s_.binds, sql)
        snap = db.snapshot()
        try:
            try:
                r = run(ctx, stmt)
            except (E.ForkOn, E.NeedConcrete, E.Inconclusive, E.Bug):
                # the executor re-executes the whole sqlite3_step call after a fork / concretisation: no partial effect may remain
                db.restore(snap); raise
        except Abort as a:
            db.restore(snap); q.changes = 0
            q.log.append(('abort', sql[:80], str(a)))
            if st is not None: st.log.append(('sqlabort', str(a)[:120], sql[:60]))
            if s_.kind == 'read': raise E.Inconclusive('sqlmodel', 'read statement aborted: %s' % a)
            return a.code
        if stmt['k'] == 'select':
            s_.rows = [{i: v for i, v in enumerate(row)} for row in r]
            return len(s_.rows)
        q.changes = r
        if stmt['k'] == 'insert': q.rowid = getattr(db, 'last_rowid', 0) & M64
        return SQLITE_DONE
    def rel_select(st, sql):
        """run a SELECT over the modelled store of state `st` (used by the independent readers of the checks); -> list of rows"""
        q = st.env.get('sq')
        if q is None or getattr(q, 'rel', None) is None: return []
        stmt = parse_statement(sql)
        return run_select(Ctx(st, q.rel, {}, sql), stmt, [])
    eng.rel_select = rel_select
    cfg['execute'] = execute
    models_sqlite.install(eng, cfg)
    # transaction snapshots and state cloning of the relational store
    eng.rel_enabled = True
