"""engine.py - lsx: path-wise symbolic executor for LLVM IR over z3.

Values:  python int (concrete, unsigned, masked) | z3 BitVec term | z3 Bool term (i1)
         | P (pointer) | FnPtr | Agg | Undef.
Floats are carried as their IEEE bit patterns (ints / bit-vectors).
"""
import sys, time, math, struct, os
import z3
from .ir import (Module, Int, Flt, Ptr, Arr, Vec, Struct, Named, Func, Void, Opaque, P, NULL, FnPtr, Agg, Undef, Reg, Block)

sys.setrecursionlimit(100000)
BitVecRef, BoolRef = z3.BitVecRef, z3.BoolRef

def is_sym(v): return isinstance(v, z3.ExprRef)
def mask(v, bits): return v & ((1 << bits) - 1)
def to_signed(v, bits): return v - (1 << bits) if v >> (bits - 1) else v

def bv(v, bits):
    if v.__class__ is int: return z3.BitVecVal(v, bits)
    if isinstance(v, BoolRef): return z3.If(v, z3.BitVecVal(1, bits), z3.BitVecVal(0, bits))
    return v
def boolv(v):
    if v.__class__ is int: return z3.BoolVal(bool(v))
    if isinstance(v, BoolRef): return v
    return v != 0
def simp(v):
    if isinstance(v, z3.ExprRef):
        v = z3.simplify(v)
        if z3.is_bv_value(v): return v.as_long()
        if z3.is_true(v): return 1
        if z3.is_false(v): return 0
    return v

def d2b(f): return struct.unpack('<Q', struct.pack('<d', f))[0]
def b2d(b): return struct.unpack('<d', struct.pack('<Q', b))[0]
def f2b(f):
    try: return struct.unpack('<I', struct.pack('<f', f))[0]
    except OverflowError: return 0x7f800000 if f > 0 else 0xff800000
def b2f(b): return struct.unpack('<f', struct.pack('<I', b))[0]
def fsort(bits): return z3.Float64() if bits == 64 else z3.Float32()
def tofp(v, bits): return z3.fpBVToFP(bv(v, bits), fsort(bits))
RNE = z3.RNE()

class Partial(Undef):
    """a wide value some of whose bytes are uninitialised (e.g. an 8-byte copy of a std::optional<int> whose payload was
    never written): behaves as Undef in computations, but a store writes the initialised bytes back"""
    __slots__ = ('bytes',)
    def __init__(s, bs): Undef.__init__(s, 8 * len(bs)); s.bytes = bs

class Bug(Exception):
    """a property/monitor violation candidate (with a model = concrete input)"""
    def __init__(s, kind, msg, model=None, cond=None): s.kind, s.msg, s.model, s.cond = kind, msg, model, cond
    def __str__(s): return '%s: %s' % (s.kind, s.msg)
class Inconclusive(Exception):
    """the machinery could not decide (cap, unknown, unsupported) - never counted as held"""
    def __init__(s, kind, msg): s.kind, s.msg = kind, msg
    def __str__(s): return '%s: %s' % (s.kind, s.msg)
class Throw(Exception): pass
class PathEnd(Exception):
    def __init__(s, outcome): s.outcome = outcome
class NeedConcrete(Exception):
    def __init__(s, e, what): s.e, s.what = e, what
class ForkOn(Exception):
    """raised by an environment model: options = [(value, cond-or-None)]; the call is re-executed in each
    resulting state with st.decisions[key] = value"""
    def __init__(s, key, options, keep=None): s.key, s.options, s.keep = key, options, keep

class Obj:
    __slots__ = ('size', 'cells', 'alive', 'kind', 'name', 'owner')
    def __init__(s, size, kind, name, owner):
        s.size, s.cells, s.alive, s.kind, s.name, s.owner = size, {}, True, kind, name, owner

class Frame:
    __slots__ = ('fn', 'regs', 'blk', 'ip', 'prev', 'allocas', 'ret_dst', 'inv')
    def __init__(s, fn):
        s.fn = fn; s.regs = {}; s.blk = 0; s.ip = 0; s.prev = -1; s.allocas = []
        s.ret_dst = None; s.inv = None

class ExcInfo:
    __slots__ = ('obj', 'tname', 'dtor')
    def __init__(s, obj, tname, dtor=None): s.obj, s.tname, s.dtor = obj, tname, dtor

def copy_env(v):
    if isinstance(v, dict): return {k: copy_env(x) for k, x in v.items()}
    if isinstance(v, list): return [copy_env(x) for x in v]
    if hasattr(v, 'clone'): return v.clone()
    return v
UID = [0]
def new_uid():
    UID[0] += 1; return UID[0]

class State:
    def __init__(s, eng):
        s.eng = eng; s.uid = new_uid()
        s.mem = {}; s.next_obj = eng.M.first_dyn_obj; s.frames = []; s.pc = []; s.model = None
        s.exc = None; s.caught = []; s.steps = 0; s.log = []; s.inputs = []; s.conc = {}; s.subst = []; s.decisions = {}; s.var_ranges = {}
        s.env = {}          # environment-model state (must hold immutable values or be cloned by env_clone)
        s.nsym = 0
    def fork(s):
        n = State.__new__(State)
        n.eng = s.eng; n.uid = new_uid(); s.uid = new_uid()
        n.mem = dict(s.mem); n.next_obj = s.next_obj
        fr2 = []
        for f in s.frames:
            g = Frame(f.fn); g.regs = dict(f.regs); g.blk, g.ip, g.prev = f.blk, f.ip, f.prev
            g.allocas = list(f.allocas); g.ret_dst = f.ret_dst; g.inv = f.inv; fr2.append(g)
        n.frames = fr2
        n.pc = list(s.pc); n.model = s.model; n.exc = s.exc; n.caught = list(s.caught); n.steps = s.steps
        n.log = list(s.log); n.inputs = list(s.inputs); n.conc = dict(s.conc); n.subst = list(s.subst); n.decisions = dict(s.decisions); n.var_ranges = s.var_ranges; n.nsym = s.nsym
        n.env = copy_env(s.env)
        return n
    # ---- objects
    def alloc(s, size, kind, name=''):
        i = s.next_obj; s.next_obj += 1
        s.mem[i] = Obj(size, kind, name, s.uid); return P(i, 0)
    def obj_r(s, oid):
        o = s.mem.get(oid)
        if o is None: o = s.eng.materialize_global(s, oid)
        return o
    def obj_w(s, oid):
        o = s.mem.get(oid)
        if o is None: o = s.eng.materialize_global(s, oid)
        if o.owner != s.uid:
            n = Obj(o.size, o.kind, o.name, s.uid); n.cells = dict(o.cells); n.alive = o.alive
            s.mem[oid] = n; return n
        return o
    def fresh(s, name, bits):
        s.nsym += 1
        return z3.BitVec('%s!%d' % (name, s.nsym), bits)
    def new_input(s, name, bits, kind='int'):
        cq = s.eng.concrete_inputs
        if cq is not None and kind != 'env':
            # concrete mode (translation validation against the native build): inputs come from a recorded list
            if not cq: raise Inconclusive('harness', 'concrete input list exhausted')
            return cq.pop(0) & ((1 << bits) - 1)
        v = s.fresh(name, bits); s.inputs.append((kind, name, bits, v)); return v

class Engine:
    def __init__(s, M, timeout_ms=60000, max_steps=2000000, max_paths=20000, big_alloc=1 << 24, conc_cap=600):
        s.M = M; M.const_hook = s
        s.models = {}
        s.timeout_ms = timeout_ms; s.max_steps = max_steps; s.max_paths = max_paths
        s.big_alloc = big_alloc; s.conc_cap = conc_cap
        s.stats = {'queries': 0, 'sat': 0, 'unsat': 0, 'unknown': 0, 'solver_s': 0.0, 'paths': 0, 'forks': 0, 'instr': 0, 'model_hits': 0}
        s.solver = z3.Solver(); s.solver.set('timeout', timeout_ms)
        s.sstack = []
        s.typeid = {}      # typeinfo name -> selector id
        s.ext_globals = {} # name -> callable(state, obj) initialiser for external globals
        s.funcs_touched = set()
        s.dump_queries = None
        s.nsw_check = True
        s.undef_strict = True
        s.on_instr = None
        s.known_filter = None; s.known_hits = {}
        s.fresh_only = False; s.inc_timeout_ms = 3000; s.alt_solver = None; s.last_resort_ms = 60000; s.alt_first = False; s.alt_trust_sat = False; s.concrete_inputs = None; s.model_prefixes = []; s.any_undef = False
        from . import models_rt
        models_rt.install(s)

    # ------------------------------------------------------------ solver
    def _sync(s, pc):
        st = s.sstack; k = 0; n = min(len(st), len(pc))
        while k < n and st[k] is pc[k]: k += 1
        if k < len(st):
            s.solver.pop(len(st) - k); del st[k:]
        for c in pc[k:]:
            s.solver.push(); s.solver.add(c); st.append(c)
    def check(s, st, cond=None):
        """is pc /\\ cond satisfiable?  returns model or None; raises Inconclusive on unknown.
        First the incremental solver (push/pop along the DFS) with a short timeout, then - because z3's incremental
        mode skips the tactic pipeline that floating point and hard bit-vector queries need - a fresh solver."""
        t = time.time()
        r = z3.unknown; m = None
        if s.alt_first and s.alt_solver is not None and cond is not None:
            s.cur_ranges = st.var_ranges
            v, info = s.alt_solver(st.pc, cond)
            s.stats['alt_' + v] = s.stats.get('alt_' + v, 0) + 1
            if v in ('sat', 'unsat'):
                if v == 'sat':
                    g = z3.Solver()
                    for bvvar, val in info.items(): g.add(bvvar == val)
                    g.check(); m = g.model()
                s.stats['solver_s'] += time.time() - t; s.stats['queries'] += 1; s.stats[v] += 1
                return m
        if not s.fresh_only:
            s._sync(st.pc)
            if cond is not None:
                s.solver.push(); s.solver.add(cond)
            s.solver.set('timeout', min(s.timeout_ms, s.inc_timeout_ms))
            r = s.solver.check()
            m = s.solver.model() if r == z3.sat else None
            if s.dump_queries is not None and len(s.dump_queries) < 40 and cond is not None:
                s.dump_queries.append((s.solver.to_smt2(), str(r)))
            if cond is not None: s.solver.pop()
        if r == z3.unknown:
            f = z3.Solver(); f.set('timeout', s.timeout_ms)
            for c in st.pc: f.add(c)
            if cond is not None: f.add(cond)
            r = f.check(); s.stats['fresh'] = s.stats.get('fresh', 0) + 1
            m = f.model() if r == z3.sat else None
            why = f.reason_unknown() if r == z3.unknown else ''
            if r == z3.unknown and s.alt_solver is not None:
                s.cur_ranges = st.var_ranges
                v, info = s.alt_solver(st.pc, cond)
                s.stats['alt_' + v] = s.stats.get('alt_' + v, 0) + 1
                if v == 'unsat': r = z3.unsat
                elif v == 'sat' and not s.alt_trust_sat:
                    # the alternative encoding abstracts FP operations: its sat answers may be spurious, so they decide nothing
                    why = 'native: %s; alternative encoding: sat (not trusted: FP abstracted)' % why
                elif v == 'sat':
                    g = z3.Solver()
                    for bvvar, val in info.items(): g.add(bvvar == val)
                    g.check(); m = g.model(); r = z3.sat
                else: why = 'native: %s; alternative encoding: %s %s' % (why, v, str(info)[:300])
        if r == z3.unknown and s.last_resort_ms and 'timeout' in why or (r == z3.unknown and s.last_resort_ms and 'canceled' in why):
            # last resort before giving up: the native theory once more with a long budget (a short budget that is enough on an idle machine
            # is not when 16 jobs share it; an undecided obligation costs the whole run)
            f = z3.Solver(); f.set('timeout', s.last_resort_ms)
            for c in st.pc: f.add(c)
            if cond is not None: f.add(cond)
            r = f.check(); s.stats['last_resort'] = s.stats.get('last_resort', 0) + 1
            m = f.model() if r == z3.sat else None
            if r == z3.unknown: why += '; last resort (%d ms): %s' % (s.last_resort_ms, f.reason_unknown())
        s.stats['solver_s'] += time.time() - t; s.stats['queries'] += 1; s.stats[str(r)] += 1
        if r == z3.unknown: raise Inconclusive('unknown', 'solver returned unknown (%s)' % why)
        return m
    def model_true(s, st, c):
        """evaluate Bool c under the state's witness model; None if there is no (valid) model.  The model is re-validated
        against path-condition conjuncts added since it was obtained (environment models append range constraints on
        fresh variables), and dropped if it does not satisfy them."""
        m = st.model
        if m is None: return None
        n = len(st.pc)
        k = st.__dict__.get('model_ok', (None, 0))
        if k[0] is not m: k = (m, 0)
        if k[1] < n:
            # conjuncts appended by the engine itself were checked against the model when added; the others are evaluated here
            for cj in st.pc[k[1]:]:
                if not z3.is_true(m.eval(cj, model_completion=True)):
                    st.model = None; return None
            st.model_ok = (m, n)
        v = m.eval(c, model_completion=True)
        if z3.is_true(v): return True
        if z3.is_false(v): return False
        return None
    def ensure_model(s, st):
        if st.model is not None: s.model_true(st, z3.BoolVal(True))      # drops a witness model that does not satisfy conjuncts appended since (declared input ranges)
        if st.model is None:
            st.model = s.check(st)
            if st.model is None: raise Inconclusive('infeasible', 'path condition unsatisfiable')
    def feasible(s, st, cond):
        c = simp(cond)
        if not is_sym(c): return bool(c)
        c = boolv(c)
        if s.model_true(st, c): s.stats['model_hits'] += 1; return True
        return s.check(st, c) is not None
    def assume(s, st, cond):
        """add cond to the path condition; returns False if that makes the path infeasible"""
        c = simp(cond)
        if not is_sym(c): return bool(c)
        c = boolv(c)
        if s.model_true(st, c):
            st.pc.append(c); return True
        m = s.check(st, c)
        if m is None: return False
        st.pc.append(c); st.model = m; return True
    def check_bug(s, st, cond, kind, msg):
        """cond = condition under which the bug occurs"""
        c = simp(cond)
        if not is_sym(c):
            if c:
                s.ensure_model(st); raise Bug(kind, msg, st.model)
            return
        c = boolv(c)
        if s.model_true(st, c): raise Bug(kind, msg, st.model, c)
        m = s.check(st, c)
        if m is not None: raise Bug(kind, msg, m, c)
    def must_be(s, st, cond):
        """True iff cond holds on all models of pc"""
        c = simp(cond)
        if not is_sym(c): return bool(c)
        c = boolv(c)
        if s.model_true(st, c) is False: return False
        return s.check(st, z3.Not(c)) is None
    def values_of(s, st, v, cap=None, what='value'):
        cap = cap or s.conc_cap
        vals = []
        s._sync(st.pc); s.solver.push()
        try:
            while True:
                t = time.time(); r = s.solver.check(); s.stats['solver_s'] += time.time() - t; s.stats['queries'] += 1; s.stats[str(r)] += 1
                if r == z3.unknown: raise Inconclusive('unknown', 'solver unknown while enumerating ' + what)
                if r != z3.sat: break
                m = s.solver.model()
                x = m.eval(v, model_completion=True).as_long(); vals.append((x, m)); s.solver.add(v != x)
                if len(vals) > cap: raise Inconclusive('cap', 'more than %d feasible values for %s' % (cap, what))
        finally:
            s.solver.pop()
        return vals



    # ------------------------------------------------------------ decisions made by environment models
    def choose(s, st, name, n):
        """pure nondeterministic choice among range(n), by forking (re-executes the calling model)"""
        key = '%s#%d' % (name, st.steps)
        d = st.decisions.get(key)
        if d is not None: return d[0]
        if n == 1: return 0
        raise ForkOn(key, [(i, None) for i in range(n)])
    def decide(s, st, cond):
        """boolean decision on a symbolic condition, by forking (re-executes the calling model)"""
        c = simp(cond)
        if not is_sym(c): return bool(c)
        c = boolv(c)
        key = ('d', c.get_id(), st.steps)
        d = st.decisions.get(key)
        if d is not None: return d[0]
        raise ForkOn(key, [(True, c), (False, z3.Not(c))], keep=c)

    # ------------------------------------------------------------ concretisation helpers
    def conc_try(s, st, v):
        """v symbolic: return its concrete value if pinned by an earlier concretisation, else v"""
        k = v.get_id()
        c = st.conc.get(k)
        if c is not None: return c[0]
        if st.subst:
            v2 = simp(z3.substitute(v, *st.subst))
            if v2.__class__ is int:
                st.conc[k] = (v2, v); return v2
        return v
    def concretize(s, st, v, what):
        if v.__class__ is int: return v
        if isinstance(v, Undef): raise Bug('undef', what + ' is uninitialised', s._m(st))
        if isinstance(v, BoolRef): v = bv(v, 1)
        r = s.conc_try(st, v)
        if r.__class__ is int: return r
        raise NeedConcrete(v, what)
    @staticmethod
    def free_vars(e, cap=6):
        out = {}; seen = set(); work = [e]
        while work:
            x = work.pop()
            i = x.get_id()
            if i in seen: continue
            seen.add(i)
            if z3.is_const(x) and x.decl().kind() == z3.Z3_OP_UNINTERPRETED:
                out[i] = x
                if len(out) > cap: return None
            else: work.extend(x.children())
        return list(out.values())
    def pin_vars(s, st, e):
        vs = s.free_vars(e)
        if not vs: return
        have = set(a.get_id() for a, _ in st.subst)
        for v in vs:
            if v.get_id() in have: continue
            s.ensure_model(st)
            mv = st.model.eval(v, model_completion=True)
            if s.check(st, v != mv) is None: st.subst.append((v, mv))

    # ------------------------------------------------------------ globals
    def materialize_global(s, st, oid):
        M = s.M
        nm = M.gname.get(oid)
        if nm is None: raise Bug('badptr', 'access to unknown object %d' % oid)
        t, init, is_const = M.globals[nm]
        size = M.sizeof(t)
        o = Obj(max(size, 1) if init is not None else max(size, 8), 'const' if is_const else 'global', '@' + nm, st.uid)
        st.mem[oid] = o
        if init is not None:
            v, _ = M.operand(t, init, 0)
            s.store_typed_init(o, 0, t, v)
        elif nm in s.ext_globals:
            s.ext_globals[nm](st, o)
        elif nm.startswith(('_ZTT', '_ZTV')):
            # VTT / vtable of a libstdc++.so class (iostreams): every slot points into a block of zeros, so that the
            # inline constructor/destructor fragments that read a vbase offset (vptr[-3]) see offset 0
            for i in range(0, max(size, 8), 8): o.cells[i] = (8, s.dummy_vptr(st))
        return o
    def dummy_vptr(s, st):
        if 'dummy_vt' not in st.env:
            d = st.alloc(512, 'const', 'dummy-vtable'); dobj = st.mem[d.obj]
            for i in range(0, 512, 8): dobj.cells[i] = (8, 0)
            st.env['dummy_vt'] = d.obj
        return P(st.env['dummy_vt'], 256)
    def store_typed_init(s, o, off, t, v):
        M = s.M; r = M.resolve(t); c = r.__class__
        if c is Struct:
            offs = M.layout(r)[1]
            for k, e in enumerate(r.els): s.store_typed_init(o, off + offs[k], e, v.vals[k])
        elif c is Arr or c is Vec:
            es = M.sizeof(r.el)
            if isinstance(v, Agg):
                for k in range(r.n): s.store_typed_init(o, off + k * es, r.el, v.vals[k])
        else:
            n = M.sizeof(r)
            if n and not isinstance(v, Undef): o.cells[off] = (n, v)

    # ------------------------------------------------------------ memory
    def obj_of(s, st, p, what, write=False):
        if p.__class__ is not P:
            if isinstance(p, Undef): raise Bug('undef', '%s through uninitialised pointer' % what, s._m(st))
            raise Bug('badptr', '%s through non-pointer %r' % (what, p), s._m(st))
        if p.obj == 0: raise Bug('null', '%s through null pointer' % what, s._m(st))
        o = st.obj_w(p.obj) if write else st.obj_r(p.obj)
        if not o.alive: raise Bug('uaf', '%s of freed/dead object %s' % (what, o.name), s._m(st))
        return o
    def _m(s, st):
        try: s.ensure_model(st)
        except Inconclusive: return None
        return st.model
    def bounds(s, st, o, off, n, what):
        if off.__class__ is int and o.size.__class__ is int:
            so = to_signed(off, 64)
            if so < 0 or so + n > o.size:
                raise Bug('oob', '%s of %d bytes at offset %d out of bounds of %s (size %d)' % (what, n, so, o.name, o.size), s._m(st))
        else:
            offb, szb = bv(off, 64), bv(o.size, 64)
            bad = z3.Or(z3.UGT(offb, szb), z3.UGT(z3.BitVecVal(n, 64), szb - offb))
            s.check_bug(st, bad, 'oob', '%s of %d bytes out of bounds of %s (size %s)' % (what, n, o.name, o.size))
    @staticmethod
    def load_byte(o, off):
        cells = o.cells
        c = cells.get(off)
        if c is not None and c[0] == 1: return c[1]
        for k in range(0, 16):
            c = cells.get(off - k)
            if c is not None:
                if c[0] > k:
                    v = c[1]
                    if v.__class__ is int: return (v >> (8 * k)) & 0xff
                    if isinstance(v, (P, FnPtr)): return ('ptrbyte', v, k)
                    if isinstance(v, Undef): return Undef(8)
                    if isinstance(v, BoolRef): v = bv(v, 8)
                    return simp(z3.Extract(8 * k + 7, 8 * k, v))
                if k: break_ = 0
        return Undef(8)
    def load_conc(s, o, off, n):
        c = o.cells.get(off)
        if c is not None and c[0] == n: return c[1]
        bs = [s.load_byte(o, off + i) for i in range(n)]
        allint = True
        for b in bs:
            if b.__class__ is not int:
                allint = False
                if isinstance(b, Undef):
                    if n > 1 and any(not isinstance(x, Undef) for x in bs): return Partial(bs)
                    return Undef(8 * n)
                if isinstance(b, tuple): raise Bug('ptrsplit', 'partial load of a stored pointer')
        if allint:
            r = 0
            for i, b in enumerate(bs): r |= b << (8 * i)
            return r
        if n == 1: return bs[0]
        return simp(z3.Concat(*[bv(b, 8) for b in reversed(bs)]))
    def load(s, st, p, n, what='load'):
        o = s.obj_of(st, p, what)
        off = p.off
        s.bounds(st, o, off, n, what)
        if off.__class__ is not int:
            off = s.conc_try(st, off)
            if off.__class__ is int: return s.load_conc(o, to_signed(off, 64), n)
            # few feasible offsets (an index into an array of structs): select among exactly those
            try: cands = s.values_of(st, off, cap=16, what=what + ' offset')
            except Inconclusive: cands = None
            if cands is not None:
                vs = []
                for x, m in cands:
                    v = s.load_conc(o, to_signed(x, 64), n)
                    if isinstance(v, (P, FnPtr)): raise NeedConcrete(off, what + ' offset (pointer cells)')
                    vs.append((x, v))
                if not vs: raise Inconclusive('infeasible', 'no feasible offset for ' + what)
                if any(isinstance(v, Undef) for x, v in vs):
                    if all(isinstance(v, Undef) for x, v in vs): return Undef(8 * n)
                    raise NeedConcrete(off, what + ' offset (some candidates uninitialised)')
                res = bv(vs[-1][1], 8 * n)
                for x, v in vs[:-1]: res = z3.If(off == x, bv(v, 8 * n), res)
                return simp(res)
            if o.size.__class__ is not int or o.size > 8192: raise NeedConcrete(off, what + ' offset')
            res = None
            for base in range(o.size - n, -1, -1):
                try: v = s.load_conc(o, base, n)
                except Bug: continue
                if isinstance(v, (P, FnPtr)): raise NeedConcrete(off, what + ' offset (pointer cells)')
                if isinstance(v, Undef): continue
                v = bv(v, 8 * n)
                res = v if res is None else z3.If(off == base, v, res)
            if res is None: return Undef(8 * n)
            return simp(res)
        return s.load_conc(o, to_signed(off, 64), n)
    @staticmethod
    def kill_overlaps(o, off, n):
        cells = o.cells
        for k in range(off - 15, off + n):
            c = cells.get(k)
            if c is None: continue
            cn, cv = c
            if k + cn <= off or k >= off + n: continue
            del cells[k]
            if k >= off and k + cn <= off + n: continue
            for i in range(cn):
                if off <= k + i < off + n: continue
                if cv.__class__ is int: cells[k + i] = (1, (cv >> (8 * i)) & 0xff)
                elif isinstance(cv, (P, FnPtr)): cells[k + i] = (1, ('ptrbyte', cv, i))
                elif isinstance(cv, Undef): pass
                else: cells[k + i] = (1, simp(z3.Extract(8 * i + 7, 8 * i, bv(cv, 8 * cn))))
    def store(s, st, p, n, v, what='store'):
        o = s.obj_of(st, p, what, write=True)
        s.bounds(st, o, p.off, n, what)
        if o.kind == 'const': raise Bug('constwrite', 'store to constant ' + o.name, s._m(st))
        off = p.off
        if off.__class__ is not int: off = s.concretize(st, off, what + ' offset')
        off = to_signed(off, 64)
        s.kill_overlaps(o, off, n)
        if isinstance(v, Undef):
            if isinstance(v, Partial) and len(v.bytes) == n:
                for i, b in enumerate(v.bytes):
                    if not isinstance(b, Undef): o.cells[off + i] = (1, b)
            return
        if isinstance(v, BoolRef): v = bv(v, 8 * n)
        o.cells[off] = (n, v)
    def store_typed(s, st, p, t, v):
        M = s.M; r = M.resolve(t); c = r.__class__
        if c is Struct:
            offs = M.layout(r)[1]
            for k, e in enumerate(r.els): s.store_typed(st, P(p.obj, p.off + offs[k]), e, v.vals[k])
        elif c is Arr or c is Vec:
            es = M.sizeof(r.el)
            for k in range(r.n): s.store_typed(st, P(p.obj, p.off + k * es), r.el, v.vals[k])
        else:
            n = M.sizeof(r)
            if n: s.store(st, p, n, v)
    def load_typed(s, st, p, t):
        M = s.M; r = M.resolve(t); c = r.__class__
        if c is Struct:
            offs = M.layout(r)[1]
            return Agg([s.load_typed(st, P(p.obj, p.off + offs[k]), e) for k, e in enumerate(r.els)])
        if c is Arr or c is Vec:
            es = M.sizeof(r.el)
            return Agg([s.load_typed(st, P(p.obj, p.off + k * es), r.el) for k in range(r.n)])
        v = s.load(st, p, M.sizeof(r))
        if c is Ptr or c is Func:
            if v.__class__ is int and v == 0: v = NULL
        elif c is Int and r.bits == 1:
            v = s.to_i1(v)
        return v
    @staticmethod
    def to_i1(v):
        if v.__class__ is int: return v & 1
        if isinstance(v, BitVecRef): return simp(z3.Extract(0, 0, v) == 1)
        return v
    def memcpy(s, st, d, sp, n, what):
        if n == 0: return
        so = s.obj_of(st, sp, what + ' src'); s.bounds(st, so, sp.off, n, what + ' src')
        do = s.obj_of(st, d, what + ' dst', write=True); s.bounds(st, do, d.off, n, what + ' dst')
        if do.kind == 'const': raise Bug('constwrite', 'memcpy to constant ' + do.name, s._m(st))
        doff = d.off
        if doff.__class__ is not int: doff = s.concretize(st, doff, what + ' dst offset')
        doff = to_signed(doff, 64)
        soff = sp.off
        if soff.__class__ is not int: soff = s.conc_try(st, soff)
        if soff.__class__ is not int:
            vals = [s.load(st, P(sp.obj, simp(soff + i)), 1) for i in range(n)]
            s.kill_overlaps(do, doff, n)
            for i, v in enumerate(vals):
                if not isinstance(v, Undef): do.cells[doff + i] = (1, v)
            return
        soff = to_signed(soff, 64)
        if so is do and soff == doff: return
        items = []; i = 0; cells = so.cells
        while i < n:
            c = cells.get(soff + i)
            if c is not None and i + c[0] <= n:
                items.append((i, c[0], c[1])); i += c[0]
            else:
                b = s.load_byte(so, soff + i)
                items.append((i, 1, b)); i += 1
        s.kill_overlaps(do, doff, n)
        dc = do.cells
        for i, cn, cv in items:
            if isinstance(cv, Undef): continue
            dc[doff + i] = (cn, cv)
    def read_bytes(s, st, p, n):
        return [s.load(st, P(p.obj, p.off + i), 1) for i in range(n)]
    def read_cstr(s, st, p, maxn=65536):
        out = bytearray()
        o = s.obj_of(st, p, 'read string')
        for i in range(maxn):
            b = s.load(st, P(p.obj, p.off + i), 1)
            if b.__class__ is not int:
                if isinstance(b, Undef): raise Bug('undef', 'C string contains uninitialised byte', s._m(st))
                raise Inconclusive('symstr', 'symbolic byte in C string that must be concrete')
            if b == 0: return bytes(out)
            out.append(b)
        raise Inconclusive('cap', 'unterminated string')
    def const_str(s, st, data, name='str'):
        if isinstance(data, str): data = data.encode()
        p = st.alloc(len(data) + 1, 'const', name)
        o = st.mem[p.obj]
        for i, ch in enumerate(data + b'\0'): o.cells[i] = (1, ch)
        return p

    # ------------------------------------------------------------ arithmetic
    def gep(s, base, coff, terms, regs=None):
        if base.__class__ is not P:
            if isinstance(base, Undef): raise Bug('undef', 'pointer arithmetic on uninitialised pointer')
            if base.__class__ is int and base == 0: base = NULL
            elif isinstance(base, FnPtr) and not terms and coff == 0: return base
            else: raise Bug('badptr', 'gep on non-pointer %r' % (base,))
        off = base.off
        symoff = None
        for sz, bits, r in terms:
            iv = regs[r.n]
            if iv.__class__ is int:
                coff += to_signed(iv, bits) * sz
            elif isinstance(iv, Undef): raise Bug('undef', 'pointer arithmetic with uninitialised index')
            elif isinstance(iv, P): raise Bug('ptrint', 'pointer used as gep index')
            else:
                if isinstance(iv, BoolRef): iv = bv(iv, bits)
                x = z3.SignExt(64 - bits, iv) if bits < 64 else iv
                x = x * sz if sz != 1 else x
                symoff = x if symoff is None else symoff + x
        if off.__class__ is int:
            if symoff is None: return P(base.obj, mask(off + coff, 64))
            return P(base.obj, simp(symoff + mask(off + coff, 64)))
        t = off + mask(coff, 64) if coff else off
        if symoff is not None: t = t + symoff
        return P(base.obj, simp(t))

    def cast(s, op, v, st_, dt):
        if op == 'bitcast' or op == 'addrspacecast': return v
        if op == 'ptrtoint':
            if v.__class__ is P and v.obj == 0 and v.off.__class__ is int: return v.off
            return v
        if op == 'inttoptr':
            if isinstance(v, (P, FnPtr)): return v
            if v.__class__ is int:
                return P(0, v)      # null-based (e.g. SQLITE_TRANSIENT = -1); deref is a bug
            if isinstance(v, Undef): return v
            raise Bug('inttoptr', 'inttoptr of symbolic integer')
        if v.__class__ is Partial and op in ('trunc', 'zext'):
            n = dt.bits // 8 if dt.bits % 8 == 0 else None
            if n is not None:
                bs = (v.bytes + [0] * n)[:n]
                return partial_value(bs)
        if isinstance(v, Undef): return Undef(dt.bits)
        db = dt.bits
        if op == 'trunc':
            if isinstance(v, P):
                if v.obj == 0: v = v.off
                else: raise Bug('ptrint', 'trunc of pointer')
            if v.__class__ is int: return v & ((1 << db) - 1)
            if db == 1: return simp(z3.Extract(0, 0, v) == 1)
            return simp(z3.Extract(db - 1, 0, v))
        sb = st_.bits
        if op == 'zext':
            if v.__class__ is int: return v
            if isinstance(v, BoolRef): return z3.If(v, z3.BitVecVal(1, db), z3.BitVecVal(0, db))
            return z3.ZeroExt(db - sb, v)
        if op == 'sext':
            if v.__class__ is int: return mask(to_signed(v, sb), db)
            if isinstance(v, BoolRef): return z3.If(v, z3.BitVecVal(mask(-1, db), db), z3.BitVecVal(0, db))
            return z3.SignExt(db - sb, v)
        if op in ('fpext', 'fptrunc'):
            if v.__class__ is int:
                if op == 'fpext': return d2b(b2f(v))
                return f2b(b2d(v))
            return simp(z3.fpToIEEEBV(z3.fpFPToFP(RNE, tofp(v, sb), fsort(db))))
        if op in ('sitofp', 'uitofp'):
            if v.__class__ is int:
                x = float(to_signed(v, sb) if op == 'sitofp' else v)
                return d2b(x) if db == 64 else f2b(x)
            v = bv(v, sb)
            f = z3.fpSignedToFP(RNE, v, fsort(db)) if op == 'sitofp' else z3.fpUnsignedToFP(RNE, v, fsort(db))
            return simp(z3.fpToIEEEBV(f))
        raise Exception('cast ' + op)
    def fptoint(s, st, op, v, sb, db):
        lo, hi = (-(1 << (db - 1)), (1 << (db - 1))) if op == 'fptosi' else (0, 1 << db)
        if v.__class__ is int:
            f = b2d(v) if sb == 64 else b2f(v)
            if f != f or f in (float('inf'), float('-inf')) or not (lo - 1 < f < hi):
                raise Bug('fpcast', '%s of out-of-range value %r' % (op, f), s._m(st))
            return mask(int(f), db)
        F = tofp(v, sb)
        srt = fsort(sb)
        okc = z3.And(z3.Not(z3.fpIsNaN(F)), z3.Not(z3.fpIsInf(F)), z3.fpGT(F, z3.FPVal(float(lo - 1), srt)), z3.fpLT(F, z3.FPVal(float(hi), srt)))
        s.check_bug(st, z3.Not(okc), 'fpcast', '%s: value may be NaN/out of range (UB)' % op)
        r = z3.fpToSBV(z3.RTZ(), F, z3.BitVecSort(db)) if op == 'fptosi' else z3.fpToUBV(z3.RTZ(), F, z3.BitVecSort(db))
        return simp(r)

    def binop(s, st, op, nsw, bits, a, b):
        ca, cb = a.__class__, b.__class__
        if ca is P or cb is P or ca is FnPtr or cb is FnPtr or ca is Lin or cb is Lin:
            return s.ptr_binop(op, bits, a, b)
        if ca is Partial and cb is int:
            r = partial_op(op, a, b, bits)
            if r is not None: return r
        if issubclass(ca, Undef) or issubclass(cb, Undef):
            if op == 'and' and ((ca is int and a == 0) or (cb is int and b == 0)): return 0
            if op == 'or' and ((ca is int and a == (1 << bits) - 1) or (cb is int and b == (1 << bits) - 1)): return (1 << bits) - 1
            if bits == 1 and op in ('and', 'or') and st is not None:
                # `or undef, x` is true whenever x is: represent the uninitialised bit as a tagged free boolean and let the
                # branch that consumes the result decide whether it can actually depend on it
                o = b if ca is Undef else a
                if isinstance(o, z3.ExprRef):
                    u = z3.Bool('undef!%d' % new_uid()); s.any_undef = True
                    return simp(z3.And(u, boolv(o)) if op == 'and' else z3.Or(u, boolv(o)))
            return Undef(bits)
        if ca is int and cb is int:
            if op == 'add':
                r = a + b
                if nsw and s.nsw_check and st is not None:
                    x = to_signed(a, bits) + to_signed(b, bits)
                    if not (-(1 << (bits - 1)) <= x < (1 << (bits - 1))): raise Bug('overflow', 'signed overflow in add', s._m(st))
            elif op == 'sub':
                r = a - b
                if nsw and s.nsw_check and st is not None:
                    x = to_signed(a, bits) - to_signed(b, bits)
                    if not (-(1 << (bits - 1)) <= x < (1 << (bits - 1))): raise Bug('overflow', 'signed overflow in sub', s._m(st))
            elif op == 'mul':
                r = a * b
                if nsw and s.nsw_check and st is not None:
                    x = to_signed(a, bits) * to_signed(b, bits)
                    if not (-(1 << (bits - 1)) <= x < (1 << (bits - 1))): raise Bug('overflow', 'signed overflow in mul', s._m(st))
            elif op == 'and': r = a & b
            elif op == 'or': r = a | b
            elif op == 'xor': r = a ^ b
            elif op == 'shl':
                if b >= bits: return Undef(bits)      # LLVM: poison, not UB (compiler-made bit tests shift first and select afterwards); a source-level shift is trapped by -fsanitize=shift
                r = a << b
                if nsw and s.nsw_check and st is not None:
                    x = to_signed(a, bits) << b
                    if not (-(1 << (bits - 1)) <= x < (1 << (bits - 1))): raise Bug('overflow', 'signed overflow in shl', s._m(st))
            elif op == 'lshr':
                if b >= bits: return Undef(bits)      # LLVM: poison, not UB (compiler-made bit tests shift first and select afterwards); a source-level shift is trapped by -fsanitize=shift
                r = a >> b
            elif op == 'ashr':
                if b >= bits: return Undef(bits)      # LLVM: poison, not UB (compiler-made bit tests shift first and select afterwards); a source-level shift is trapped by -fsanitize=shift
                r = to_signed(a, bits) >> b
            elif op == 'udiv':
                if b == 0: raise Bug('div0', 'udiv by zero', s._m(st))
                r = a // b
            elif op == 'urem':
                if b == 0: raise Bug('div0', 'urem by zero', s._m(st))
                r = a % b
            elif op == 'sdiv' or op == 'srem':
                sa, sb = to_signed(a, bits), to_signed(b, bits)
                if sb == 0: raise Bug('div0', op + ' by zero', s._m(st))
                if sa == -(1 << (bits - 1)) and sb == -1: raise Bug('overflow', op + ' overflow (MIN / -1)', s._m(st))
                q = abs(sa) // abs(sb)
                if (sa < 0) != (sb < 0): q = -q
                r = q if op == 'sdiv' else sa - q * sb
            else: raise Exception(op)
            return r & ((1 << bits) - 1)
        if bits == 1 and op in ('and', 'or', 'xor'):
            A, B = boolv(a), boolv(b)
            return simp(z3.And(A, B) if op == 'and' else z3.Or(A, B) if op == 'or' else z3.Xor(A, B))
        A, B = bv(a, bits), bv(b, bits)
        chk = nsw and s.nsw_check and st is not None
        if op == 'add':
            if chk: s.check_bug(st, z3.Not(z3.And(z3.BVAddNoOverflow(A, B, True), z3.BVAddNoUnderflow(A, B))), 'overflow', 'signed overflow in add nsw')
            r = A + B
        elif op == 'sub':
            if chk: s.check_bug(st, z3.Not(z3.And(z3.BVSubNoOverflow(A, B), z3.BVSubNoUnderflow(A, B, True))), 'overflow', 'signed overflow in sub nsw')
            r = A - B
        elif op == 'mul':
            if chk: s.check_bug(st, z3.Not(z3.And(z3.BVMulNoOverflow(A, B, True), z3.BVMulNoUnderflow(A, B))), 'overflow', 'signed overflow in mul nsw')
            r = A * B
        elif op == 'and': r = A & B
        elif op == 'or': r = A | B
        elif op == 'xor': r = A ^ B
        elif op == 'shl':
            if cb is not int and st is not None: s.check_bug(st, z3.UGE(B, bits), 'shift', 'shift amount may be >= width')
            if chk: s.check_bug(st, ((A << B) >> B) != A, 'overflow', 'signed overflow in shl nsw')
            r = A << B
        elif op == 'lshr':
            if cb is not int and st is not None: s.check_bug(st, z3.UGE(B, bits), 'shift', 'shift amount may be >= width')
            r = z3.LShR(A, B)
        elif op == 'ashr':
            if cb is not int and st is not None: s.check_bug(st, z3.UGE(B, bits), 'shift', 'shift amount may be >= width')
            r = A >> B
        elif op == 'udiv':
            if st is not None: s.check_bug(st, B == 0, 'div0', 'udiv by zero')
            r = z3.UDiv(A, B)
        elif op == 'urem':
            if st is not None: s.check_bug(st, B == 0, 'div0', 'urem by zero')
            r = z3.URem(A, B)
        elif op == 'sdiv':
            if st is not None:
                s.check_bug(st, B == 0, 'div0', 'sdiv by zero')
                s.check_bug(st, z3.And(A == (1 << (bits - 1)), B == mask(-1, bits)), 'overflow', 'sdiv overflow (MIN / -1)')
            r = A / B
        elif op == 'srem':
            if st is not None: s.check_bug(st, B == 0, 'div0', 'srem by zero')
            r = z3.SRem(A, B)
        else: raise Exception(op)
        return simp(r)

    def ptr_binop(s, op, bits, a, b):
        ca, cb = a.__class__, b.__class__
        if (ca is Lin or cb is Lin) and op in ('add', 'sub') and bits == 64:
            la, lb = to_lin(a), to_lin(b)
            if la is None or lb is None: raise Bug('ptrint', 'unsupported operand in pointer arithmetic (%r, %r)' % (a, b))
            co = dict(la[0]); sg = 1 if op == 'add' else -1
            for k, v in lb[0].items(): co[k] = co.get(k, 0) + sg * v
            return from_lin(co, (la[1] + lb[1]) if op == 'add' else (la[1] - lb[1]))
        if ca is P and a.obj == 0 and a.off.__class__ is int and cb is not P: return s.binop(None, op, False, bits, a.off, b)
        if cb is P and b.obj == 0 and b.off.__class__ is int and ca is not P: return s.binop(None, op, False, bits, a, b.off)
        if op == 'sub' and ca is P and cb is P:
            if a.obj != b.obj:
                if a.off.__class__ is not int or b.off.__class__ is not int: raise Bug('ptrdiff', 'symbolic difference of pointers into different objects')
                return mask(((a.obj << 40) + a.off) - ((b.obj << 40) + b.off), 64)
            d = a.off - b.off
            return simp(d) if is_sym(d) else mask(d, 64)
        if op == 'add' and ca is P and cb is not P and cb is not FnPtr:
            if cb is Undef: raise Bug('undef', 'pointer + uninitialised value')
            return P(a.obj, simp(a.off + b) if (is_sym(b) or is_sym(a.off)) else mask(a.off + b, 64))
        if op == 'add' and cb is P and ca is not P and ca is not FnPtr:
            if ca is Undef: raise Bug('undef', 'pointer + uninitialised value')
            return P(b.obj, simp(b.off + a) if (is_sym(a) or is_sym(b.off)) else mask(b.off + a, 64))
        if op == 'sub' and ca is P and cb is not FnPtr:
            if cb is Undef: raise Bug('undef', 'pointer - uninitialised value')
            return P(a.obj, simp(a.off - b) if (is_sym(b) or is_sym(a.off)) else mask(a.off - b, 64))
        if op == 'and' and ca is P and cb is int:
            # alignment tests
            if a.off.__class__ is int: return a.off & b if b < 64 else P(a.obj, a.off & b)
        if op in ('xor', 'or') and ca is P and cb is P and a.obj == b.obj:
            return s.binop(None, op, False, bits, a.off, b.off) if a.off.__class__ is int and b.off.__class__ is int else simp(bv(a.off, 64) ^ bv(b.off, 64))
        if op == 'xor' and ca is P and cb is P:
            return 1  # distinct objects: nonzero
        if op == 'xor' and bits == 64 and ((cb is int and b == (1 << 64) - 1) or (ca is int and a == (1 << 64) - 1)):
            la = to_lin(a if cb is int else b)      # ~x == -x - 1
            if la is not None: return from_lin({k: -v for k, v in la[0].items()}, (-la[1] - 1))
        if op in ('add', 'sub') and bits == 64:
            la, lb = to_lin(a), to_lin(b)
            if la is not None and lb is not None:
                co = dict(la[0]); sg = 1 if op == 'add' else -1
                for k, v in lb[0].items(): co[k] = co.get(k, 0) + sg * v
                off = (la[1] + lb[1]) if op == 'add' else (la[1] - lb[1])
                return from_lin(co, off)
        raise Bug('ptrint', 'unsupported integer op %s on pointer (%r, %r)' % (op, a, b))

    def icmp(s, pred, bits, a, b):
        ca, cb = a.__class__, b.__class__
        if ca is Lin or cb is Lin:
            la, lb = to_lin(a), to_lin(b)
            if la is not None and lb is not None:
                co = dict(la[0])
                for k, v in lb[0].items(): co[k] = co.get(k, 0) - v
                co = {k: v for k, v in co.items() if v % (1 << 64)}
                if not co: return s.icmp(pred, bits, la[1] if la[1].__class__ is not int else mask(la[1], 64), lb[1] if lb[1].__class__ is not int else mask(lb[1], 64))
                if pred == 'eq': return 0        # differs by a non-trivial combination of object addresses
                if pred == 'ne': return 1
            raise Bug('ptrcmp', 'ordered comparison of address combinations')
        if ca is FnPtr or cb is FnPtr:
            if ca is FnPtr and cb is FnPtr: eq = a.name == b.name
            else: eq = False
            if pred == 'eq': return int(eq)
            if pred == 'ne': return int(not eq)
            raise Bug('ptrint', 'ordered comparison of function pointers')
        if ca is P or cb is P:
            if ca is not P:
                if ca is Undef: raise Bug('undef', 'comparison on uninitialised value')
                a = P(0, a)
            if cb is not P:
                if cb is Undef: raise Bug('undef', 'comparison on uninitialised value')
                b = P(0, b)
            if a.obj != b.obj:
                if pred == 'eq': return 0
                if pred == 'ne': return 1
                # distinct objects never interleave: the order of in-bounds pointers is the order of the objects
                # (which object is lower is allocator-dependent; the executor fixes it by object id)
                if a.off.__class__ is not int or b.off.__class__ is not int: a, b, bits = a.obj, b.obj, 64
                else: a, b, bits = (a.obj << 40) + a.off, (b.obj << 40) + b.off, 64
            else:
                a, b, bits = a.off, b.off, 64
            ca, cb = a.__class__, b.__class__
        if issubclass(ca, Undef) or issubclass(cb, Undef): return Undef(1)     # poison-like: only a *use* (branch, memory address, environment) is an error
        if ca is int and cb is int:
            if pred == 'eq': return int(a == b)
            if pred == 'ne': return int(a != b)
            if pred[0] == 'u':
                return int({'ugt': a > b, 'uge': a >= b, 'ult': a < b, 'ule': a <= b}[pred])
            sa, sb = to_signed(a, bits), to_signed(b, bits)
            return int({'sgt': sa > sb, 'sge': sa >= sb, 'slt': sa < sb, 'sle': sa <= sb}[pred])
        if bits == 1:
            A, B = boolv(a), boolv(b)
            if pred == 'eq': return simp(A == B)
            if pred == 'ne': return simp(A != B)
            A, B = bv(a, 1), bv(b, 1)
        else:
            A, B = bv(a, bits), bv(b, bits)
        if pred == 'eq': r = A == B
        elif pred == 'ne': r = A != B
        elif pred == 'ugt': r = z3.UGT(A, B)
        elif pred == 'uge': r = z3.UGE(A, B)
        elif pred == 'ult': r = z3.ULT(A, B)
        elif pred == 'ule': r = z3.ULE(A, B)
        elif pred == 'sgt': r = A > B
        elif pred == 'sge': r = A >= B
        elif pred == 'slt': r = A < B
        else: r = A <= B
        return simp(r)

    def fbin(s, op, bits, a, b):
        if isinstance(a, Undef) or isinstance(b, Undef): return Undef(bits)
        if a.__class__ is int and b.__class__ is int:
            cv = b2d if bits == 64 else b2f
            x, y = cv(a), cv(b)
            try:
                if op == 'fadd': r = x + y
                elif op == 'fsub': r = x - y
                elif op == 'fmul': r = x * y
                elif op == 'fdiv':
                    if y == 0:
                        r = float('nan') if (x == 0 or x != x) else math.copysign(float('inf'), x) * math.copysign(1.0, y)
                    else: r = x / y
                else:
                    r = math.fmod(x, y) if y != 0 and x == x and abs(x) != float('inf') else float('nan')
            except OverflowError:
                r = float('inf')
            return d2b(r) if bits == 64 else f2b(r)
        A, B = tofp(a, bits), tofp(b, bits)
        r = {'fadd': z3.fpAdd, 'fsub': z3.fpSub, 'fmul': z3.fpMul, 'fdiv': z3.fpDiv}.get(op)
        if r is None:
            return simp(z3.fpToIEEEBV(z3.fpRem(A, B)))
        return simp(z3.fpToIEEEBV(r(RNE, A, B)))
    def fcmp(s, pred, bits, a, b):
        if isinstance(a, Undef) or isinstance(b, Undef): return Undef(1)       # poison-like, as icmp: only a use (branch, memory address, environment) is an error
        if pred == 'true': return 1
        if pred == 'false': return 0
        if a.__class__ is int and b.__class__ is int:
            cv = b2d if bits == 64 else b2f
            x, y = cv(a), cv(b)
            un = x != x or y != y
            if pred == 'ord': return int(not un)
            if pred == 'uno': return int(un)
            base = {'eq': x == y, 'gt': x > y, 'ge': x >= y, 'lt': x < y, 'le': x <= y, 'ne': x != y}[pred[1:]]
            if pred[0] == 'o': return int((not un) and base)
            return int(un or base)
        A, B = tofp(a, bits), tofp(b, bits)
        un = z3.Or(z3.fpIsNaN(A), z3.fpIsNaN(B))
        if pred == 'ord': return simp(z3.Not(un))
        if pred == 'uno': return simp(un)
        k = pred[1:]
        base = {'eq': z3.fpEQ, 'gt': z3.fpGT, 'ge': z3.fpGEQ, 'lt': z3.fpLT, 'le': z3.fpLEQ}.get(k)
        base = base(A, B) if base else z3.Not(z3.fpEQ(A, B))
        if pred[0] == 'o': return simp(z3.And(z3.Not(un), base))
        return simp(z3.Or(un, base))

    # ------------------------------------------------------------ exceptions
    STD_BASES = {'St16invalid_argument': 'St11logic_error', 'St12length_error': 'St11logic_error', 'St12out_of_range': 'St11logic_error',
                 'St12domain_error': 'St11logic_error', 'St11logic_error': 'St9exception', 'St13runtime_error': 'St9exception',
                 'St11range_error': 'St13runtime_error', 'St14overflow_error': 'St13runtime_error', 'St15underflow_error': 'St13runtime_error',
                 'St9bad_alloc': 'St9exception', 'St20bad_array_new_length': 'St9bad_alloc', 'St12system_error': 'St13runtime_error',
                 'NSt8ios_base7failureB5cxx11E': 'St12system_error', 'St8bad_cast': 'St9exception', 'St10bad_typeid': 'St9exception',
                 'St13bad_exception': 'St9exception', 'St17bad_function_call': 'St9exception', 'St18bad_variant_access': 'St9exception',
                 'St19bad_optional_access': 'St9exception', 'St12bad_weak_ptr': 'St9exception', 'St9exception': None}
    def type_bases(s, tname):
        """direct bases of a typeinfo name (without _ZTI prefix)"""
        if tname in s.STD_BASES:
            b = s.STD_BASES[tname]; return [b] if b else []
        g = s.M.globals.get('_ZTI' + tname)
        if g is None or g[1] is None: return []
        import re
        return [x[4:] for x in re.findall(r'@(_ZTI[A-Za-z0-9_]+)', g[1]) if x[4:] != tname]
    def exc_matches(s, thrown, catch):
        if catch is None: return True
        catch = catch[4:] if catch.startswith('_ZTI') else catch
        seen = set(); work = [thrown]
        while work:
            t = work.pop()
            if t in seen: continue
            seen.add(t)
            if t == catch: return True
            work.extend(s.type_bases(t))
        return False
    def is_std_exception(s, tname): return s.exc_matches(tname, 'St9exception')
    def sel_id(s, tiname):
        tiname = tiname[4:] if tiname.startswith('_ZTI') else tiname
        if tiname not in s.typeid: s.typeid[tiname] = len(s.typeid) + 1
        return s.typeid[tiname]
    def do_throw(s, st, obj, tname, dtor=None):
        if tname.startswith('_ZTI'): tname = tname[4:]
        st.exc = ExcInfo(obj, tname, dtor)
        st.env['uncaught'] = st.env.get('uncaught', 0) + 1       # std::uncaught_exceptions(): thrown and not yet caught
        st.log.append(('throw', tname, s.where(st)[:200]))
        raise Throw()
    def throw_std(s, st, tname, msg=''):
        o = st.alloc(64, 'heap', 'exc:' + tname)
        st.env.setdefault('exc_msgs', {})[o.obj] = msg
        s.do_throw(st, o, tname)
    def lp_select(s, st, ins):
        """can the landingpad `ins` handle st.exc? returns selector or None"""
        _, dst, cleanup, clauses = ins
        for kind, x in clauses:
            if kind == 'catch':
                if s.exc_matches(st.exc.tname, x): return 1 if x is None else s.sel_id(x)
            else:
                if not any(s.exc_matches(st.exc.tname, t) for t in x): return -1
        return 0 if cleanup else None

    # ------------------------------------------------------------ execution
    def push_frame(s, st, fname, args, ret_dst=None):
        f = s.M.funcs[fname]
        if f.blocks is None: s.M.decode(f)
        s.funcs_touched.add(fname)
        fr = Frame(f)
        regs = fr.regs
        ps = f.params
        if len(args) < len(ps): raise Bug('badcall', 'too few arguments calling ' + fname)
        for i in range(len(ps)): regs[ps[i][1]] = args[i]
        fr.ret_dst = ret_dst
        st.frames.append(fr)
        return fr

    def jump(s, st, fr, bi):
        prev = fr.blk
        blk = fr.fn.blocks[bi]
        if blk.phis:
            regs = fr.regs; vals = []
            for dst, inc in blk.phis:
                o = inc[prev]
                vals.append((dst, regs[o.n] if o.__class__ is Reg else o))
            for d, v in vals: regs[d] = v
        fr.prev = prev; fr.blk = bi; fr.ip = 0

    def explore(s, st0, on_end=None, time_limit=None):
        """DFS over all paths from st0.  Returns list of (outcome, state). outcome:
           ('returned', value) | ('threw', ExcInfo) | ('bug', Bug) | ('inconclusive', Inconclusive) | ('exit', code)"""
        results = []
        work = [st0]
        t0 = time.time()
        while work:
            st = work.pop()
            if s.stats['paths'] >= s.max_paths:
                results.append((('inconclusive', Inconclusive('cap', 'path cap %d reached' % s.max_paths)), st)); break
            if time_limit and time.time() - t0 > time_limit:
                results.append((('inconclusive', Inconclusive('cap', 'time limit %ds reached' % time_limit)), st)); break
            try:
                out = s.run_path(st, work)
            except Bug as b:
                out = ('bug', b)
            except Inconclusive as e:
                out = ('inconclusive', e)
            s.stats['paths'] += 1
            if on_end is not None:
                try:
                    r = on_end(out, st)
                    if r is not None: out = r
                except Bug as b: out = ('bug', b)
                except Inconclusive as e: out = ('inconclusive', e)
                except NeedConcrete as e: out = ('inconclusive', Inconclusive('needconcrete', e.what))
            results.append((out, st))
        return results

    def where(s, st):
        if not st.frames: return '<top>'
        return ' <- '.join('@' + f.fn.name[:80] for f in reversed(st.frames[-4:]))

    def run_path(s, st, work):
        M = s.M
        stats = s.stats
        while True:
            frames = st.frames
            if not frames: return ('returned', None)
            fr = frames[-1]
            blk = fr.fn.blocks[fr.blk]
            ins = blk.ins[fr.ip]; fr.ip += 1
            st.steps += 1; stats['instr'] += 1
            if st.steps > s.max_steps: raise Inconclusive('cap', 'step cap %d reached (possible non-termination) in %s' % (s.max_steps, s.where(st)))
            try:
                r = s.step(st, fr, ins, work)
                if r is not None: return r
            except Throw:
                r = s.unwind(st)
                if r is not None: return r
            except PathEnd as e:
                return e.outcome
            except NeedConcrete as nc:
                fr.ip -= 1; st.steps -= 1
                vals = s.values_of(st, nc.e, what=nc.what)
                if not vals: raise Inconclusive('infeasible', 'no feasible value for ' + nc.what)
                k = nc.e.get_id()
                for x, m in vals[1:]:
                    s2 = st.fork(); s2.pc.append(nc.e == x); s2.model = m; s2.conc[k] = (x, nc.e); s.pin_vars(s2, nc.e); work.append(s2); stats['forks'] += 1
                st.pc.append(nc.e == vals[0][0]); st.model = vals[0][1]; st.conc[k] = (vals[0][0], nc.e); s.pin_vars(st, nc.e)
            except ForkOn as fk:
                fr.ip -= 1; st.steps -= 1
                feas = []
                for val, cond in fk.options:
                    if cond is None: feas.append((val, None, None)); continue
                    c = simp(cond)
                    if not is_sym(c):
                        if c: feas.append((val, None, None))
                        continue
                    c = boolv(c)
                    m = s.check(st, c)
                    if m is not None: feas.append((val, c, m))
                if not feas: raise Inconclusive('infeasible', 'no feasible option for ' + str(fk.key))
                for val, c, m in feas[1:]:
                    s2 = st.fork(); s2.decisions[fk.key] = (val, fk.keep)
                    if c is not None: s2.pc.append(c); s2.model = m
                    work.append(s2); stats['forks'] += 1
                val, c, m = feas[0]
                st.decisions[fk.key] = (val, fk.keep)
                if c is not None: st.pc.append(c); st.model = m
            except Bug as b:
                b.msg += '  [at %s :: %s]' % (s.where(st), (ins,).__repr__()[:160])
                kf = s.known_filter(b, st) if s.known_filter else None
                if kf is None: raise
                # a listed known finding: record it, exclude exactly this failing condition (or, when the entry names
                # concrete input values, exactly those values) and carry on, so that any *other* violation is still found
                kf, excl = kf if isinstance(kf, tuple) else (kf, None)
                s.known_hits.setdefault(kf, []).append((b, st.inputs, st.log[-6:]))
                if b.cond is None and excl is None: return ('known-finding', kf)
                nc_ = excl if excl is not None else z3.Not(b.cond)
                m = s.check(st, nc_)
                if m is None: return ('known-finding', kf)
                st.pc.append(nc_); st.model = m
                fr.ip -= 1; st.steps -= 1
            except Inconclusive as e:
                e.msg += '  [at %s]' % s.where(st); raise
            except z3.Z3Exception as e:
                raise Inconclusive('engine', 'z3 exception %r at %s :: %r' % (e, s.where(st), ins))
            except (TypeError, AttributeError, KeyError, AssertionError, IndexError, ValueError) as e:
                import traceback
                raise Inconclusive('engine', 'engine error %r at %s :: %r\n%s' % (e, s.where(st), ins, traceback.format_exc()[-1500:]))

    def unwind(s, st):
        """propagate st.exc to the innermost invoke whose landingpad accepts it"""
        while st.frames:
            fr = st.frames[-1]
            if fr.inv is not None:
                normal, unw = fr.inv; fr.inv = None
                lp = fr.fn.blocks[unw].ins[0]
                assert lp[0] == 'landingpad', lp
                sel = s.lp_select(st, lp)
                if sel is not None:
                    if sel == -1: raise Bug('terminate', 'exception violates exception specification (std::unexpected/terminate)', s._m(st))
                    s.jump(st, fr, unw)
                    fr.regs[lp[1]] = Agg([st.exc.obj, sel]); fr.ip = 1
                    return None
                continue   # same frame: no handler matched here, keep unwinding out of this frame
            for a in fr.allocas:
                o = st.obj_w(a); o.alive = False
            st.frames.pop()
        return ('threw', st.exc)

    def ev(s, fr, o):
        return fr.regs[o.n] if o.__class__ is Reg else o

    def undef_vars(s, c):
        out = []; seen = set(); work = [c]
        while work:
            x = work.pop(); i = x.get_id()
            if i in seen: continue
            seen.add(i)
            if z3.is_const(x) and x.decl().kind() == z3.Z3_OP_UNINTERPRETED:
                if x.decl().name().startswith('undef!'): out.append(x)
            else: work.extend(x.children())
        return out
    def fork_branch(s, st, fr, work, c, on_true, on_false):
        """c symbolic Bool. Explore both feasible sides."""
        c = boolv(c)
        us = s.undef_vars(c) if s.any_undef else []
        if us:
            # the condition mentions uninitialised bits: it is a genuine use of an uninitialised value iff its truth can depend on them
            c0 = z3.substitute(c, *[(u, z3.BoolVal(False)) for u in us]); c1 = z3.substitute(c, *[(u, z3.BoolVal(True)) for u in us])
            dep = simp(z3.Xor(c0, c1))
            if dep.__class__ is int:
                if dep: raise Bug('undef', 'branch depends on an uninitialised value', s._m(st))
            else: s.check_bug(st, dep, 'undef', 'branch depends on an uninitialised value')
            c = simp(c0)
            if c.__class__ is int:
                (on_true if c else on_false)(st, fr); return
            c = boolv(c)
        mv = s.model_true(st, c)
        if mv is None:
            s.ensure_model(st); mv = s.model_true(st, c)
            if mv is None: mv = s.check(st, c) is not None
        other = z3.Not(c) if mv else c
        m2 = s.check(st, other)
        if m2 is not None:
            s.stats['forks'] += 1
            s2 = st.fork(); s2.pc.append(other); s2.model = m2
            (on_false if mv else on_true)(s2, s2.frames[-1])
            work.append(s2)
            st.pc.append(c if mv else z3.Not(c))
        (on_true if mv else on_false)(st, fr)

    def step(s, st, fr, ins, work):
        op = ins[0]
        regs = fr.regs
        if op == 'load':
            _, dst, kind, n, a, rt = ins
            a = regs[a.n] if a.__class__ is Reg else a
            if kind == 'a':
                regs[dst] = s.load_typed(st, a, rt); return
            v = s.load(st, a, n)
            if kind == 'p':
                if v.__class__ is int: v = NULL if v == 0 else P(0, v)
                elif isinstance(v, BitVecRef):
                    raise Bug('symptr', 'load of pointer from symbolic bytes')
            elif kind == 'b': v = s.to_i1(v)
            regs[dst] = v; return
        if op == 'store':
            _, kind, n, v, a, rt = ins
            v = regs[v.n] if v.__class__ is Reg else v
            a = regs[a.n] if a.__class__ is Reg else a
            if kind == 'a': s.store_typed(st, a, rt, v)
            else: s.store(st, a, n, v)
            return
        if op == 'gep':
            _, dst, base, coff, terms = ins
            base = regs[base.n] if base.__class__ is Reg else base
            regs[dst] = s.gep(base, coff, terms, regs); return
        if op == 'bin':
            _, dst, bop, nsw, bits, a, b = ins
            a = regs[a.n] if a.__class__ is Reg else a
            b = regs[b.n] if b.__class__ is Reg else b
            regs[dst] = s.binop(st, bop, nsw, bits, a, b); return
        if op == 'icmp':
            _, dst, pred, bits, a, b = ins
            a = regs[a.n] if a.__class__ is Reg else a
            b = regs[b.n] if b.__class__ is Reg else b
            regs[dst] = s.icmp(pred, bits, a, b); return
        if op == 'cast':
            _, dst, cop, t1, t2, a = ins
            a = regs[a.n] if a.__class__ is Reg else a
            if cop == 'fptosi' or cop == 'fptoui':
                if isinstance(a, Undef): regs[dst] = Undef(t2.bits)
                else: regs[dst] = s.fptoint(st, cop, a, t1.bits, t2.bits)
            else: regs[dst] = s.cast(cop, a, t1, t2)
            return
        if op == 'br':
            s.jump(st, fr, ins[1]); return
        if op == 'condbr':
            _, c, tb, fb = ins
            c = regs[c.n] if c.__class__ is Reg else c
            if c.__class__ is int:
                s.jump(st, fr, tb if c else fb); return
            if isinstance(c, Undef): raise Bug('undef', 'branch on uninitialised value', s._m(st))
            return s.fork_branch(st, fr, work, c, lambda s2, f2: s.jump(s2, f2, tb), lambda s2, f2: s.jump(s2, f2, fb))
        if op == 'call':
            return s.do_call(st, fr, ins, work)
        if op == 'select':
            _, dst, c, a, b, bits = ins
            c = regs[c.n] if c.__class__ is Reg else c
            a = regs[a.n] if a.__class__ is Reg else a
            b = regs[b.n] if b.__class__ is Reg else b
            if c.__class__ is int: regs[dst] = a if c else b; return
            if isinstance(c, Undef):
                # `select undef, a, b` is not undefined behaviour in LLVM (the result is either operand / poison): clang's if-conversion
                # produces it speculatively, e.g. clamp(*opt) evaluated before the has_value test.  The RESULT is uninitialised; only a use
                # of it that the language makes an error (branch, memory address, environment call) is reported.
                regs[dst] = a if a is b else Undef(bits if bits else 64); return
            if a is b: regs[dst] = a; return
            ca, cb = a.__class__, b.__class__
            if ca in (P, FnPtr, Agg, Undef, Partial, Lin) or cb in (P, FnPtr, Agg, Undef, Partial, Lin) or bits == 0:
                if ca is P and cb is P and a.obj == b.obj:
                    regs[dst] = P(a.obj, simp(z3.If(boolv(c), bv(a.off, 64), bv(b.off, 64)))); return
                return s.fork_branch(st, fr, work, c, lambda s2, f2: f2.regs.__setitem__(dst, a), lambda s2, f2: f2.regs.__setitem__(dst, b))
            if bits == 1:
                regs[dst] = simp(z3.If(boolv(c), boolv(a), boolv(b))); return
            regs[dst] = simp(z3.If(boolv(c), bv(a, bits), bv(b, bits))); return
        if op == 'ret':
            rv = ins[1]
            if rv is not None: rv = regs[rv.n] if rv.__class__ is Reg else rv
            for a in fr.allocas:
                o = st.obj_w(a); o.alive = False
            st.frames.pop()
            if not st.frames: return ('returned', rv)
            caller = st.frames[-1]
            if fr.ret_dst is not None: caller.regs[fr.ret_dst] = rv
            if caller.inv is not None:
                nb = caller.inv[0]; caller.inv = None; s.jump(st, caller, nb)
            return
        if op == 'alloca':
            _, dst, size, cnt = ins
            if cnt is not None:
                cnt = regs[cnt.n] if cnt.__class__ is Reg else cnt
                if cnt.__class__ is not int: raise Inconclusive('unsupported', 'symbolic alloca count')
                size *= cnt
            p = st.alloc(size, 'stack', '%' + dst + '@' + fr.fn.name[:40]); fr.allocas.append(p.obj)
            regs[dst] = p; return
        if op == 'extractvalue':
            _, dst, a, idx = ins
            a = regs[a.n] if a.__class__ is Reg else a
            for k in idx:
                if isinstance(a, Undef): break
                a = a.vals[k]
            regs[dst] = a; return
        if op == 'insertvalue':
            _, dst, a, b, idx = ins
            a = regs[a.n] if a.__class__ is Reg else a
            b = regs[b.n] if b.__class__ is Reg else b
            def ins_(a, idx):
                vals = list(a.vals) if isinstance(a, Agg) else None
                if vals is None: raise Inconclusive('unsupported', 'insertvalue into non-aggregate')
                vals[idx[0]] = b if len(idx) == 1 else ins_(vals[idx[0]], idx[1:])
                return Agg(vals)
            regs[dst] = ins_(a, idx); return
        if op == 'switch':
            _, bits, c, dflt, cases = ins
            c = regs[c.n] if c.__class__ is Reg else c
            if c.__class__ is int:
                for v, lab in cases:
                    if v == c: s.jump(st, fr, lab); return
                s.jump(st, fr, dflt); return
            if isinstance(c, Undef): raise Bug('undef', 'switch on uninitialised value', s._m(st))
            C = bv(c, bits)
            opts = [(C == v, lab) for v, lab in cases]
            opts.append((z3.And(*[C != v for v, lab in cases]) if cases else z3.BoolVal(True), dflt))
            feas = []
            for cond, lab in opts:
                m = s.check(st, cond)
                if m is not None: feas.append((cond, lab, m))
            if not feas: raise Inconclusive('infeasible', 'no feasible switch target')
            for cond, lab, m in feas[1:]:
                s2 = st.fork(); s2.pc.append(cond); s2.model = m; s.jump(s2, s2.frames[-1], lab); work.append(s2); s.stats['forks'] += 1
            st.pc.append(feas[0][0]); st.model = feas[0][2]; s.jump(st, fr, feas[0][1]); return
        if op == 'fbin':
            _, dst, fop, bits, a, b = ins
            a = regs[a.n] if a.__class__ is Reg else a
            b = regs[b.n] if b.__class__ is Reg else b
            regs[dst] = s.fbin(fop, bits, a, b); return
        if op == 'fcmp':
            _, dst, pred, bits, a, b = ins
            a = regs[a.n] if a.__class__ is Reg else a
            b = regs[b.n] if b.__class__ is Reg else b
            regs[dst] = s.fcmp(pred, bits, a, b); return
        if op == 'fneg':
            _, dst, bits, a = ins
            a = regs[a.n] if a.__class__ is Reg else a
            if isinstance(a, Undef): regs[dst] = a
            elif a.__class__ is int: regs[dst] = a ^ (1 << (bits - 1))
            else: regs[dst] = simp(z3.fpToIEEEBV(z3.fpNeg(tofp(a, bits))))
            return
        if op == 'freeze':
            a = ins[2]; regs[ins[1]] = regs[a.n] if a.__class__ is Reg else a; return
        if op == 'unreachable':
            raise Bug('unreachable', 'llvm unreachable reached (undefined behaviour)', s._m(st))
        if op == 'resume':
            raise Throw()
        if op == 'landingpad':
            raise Inconclusive('engine', 'landingpad reached by normal control flow')
        if op == 'atomicrmw':
            _, dst, aop, a, v, bits, n = ins
            a = regs[a.n] if a.__class__ is Reg else a
            v = regs[v.n] if v.__class__ is Reg else v
            old = s.load(st, a, n)
            if aop == 'xchg': new = v
            elif aop in ('add', 'sub', 'and', 'or', 'xor'): new = s.binop(st, aop, False, bits, old, v)
            else: raise Inconclusive('unsupported', 'atomicrmw ' + aop)
            s.store(st, a, n, new); regs[dst] = old; return
        if op == 'cmpxchg':
            _, dst, a, c, nv, bits, n = ins
            a = regs[a.n] if a.__class__ is Reg else a
            c = regs[c.n] if c.__class__ is Reg else c
            nv = regs[nv.n] if nv.__class__ is Reg else nv
            old = s.load(st, a, n)
            eq = s.icmp('eq', bits, old, c)
            if eq.__class__ is not int: raise Inconclusive('unsupported', 'symbolic cmpxchg')
            if eq: s.store(st, a, n, nv)
            regs[dst] = Agg([old, eq]); return
        if op == 'fence': return
        if op == 'unsupported': raise Inconclusive('unsupported', 'instruction ' + ins[1])
        raise Inconclusive('unsupported', 'opcode ' + op)

    def do_call(s, st, fr, ins, work):
        _, dst, callee, args, normal, unwind = ins
        regs = fr.regs
        if callee.__class__ is Reg:
            fp = regs[callee.n]
            if not isinstance(fp, FnPtr):
                if isinstance(fp, Undef): raise Bug('undef', 'indirect call through uninitialised pointer', s._m(st))
                raise Bug('badcall', 'indirect call through non-function %r' % (fp,), s._m(st))
            callee = s.M.lookup_func(fp.name)
        av = [regs[a.n] if a.__class__ is Reg else a for a in args]
        if callee.startswith('llvm.'):
            r = s.intrinsic(st, fr, callee, av, work, dst)
            if r is FORKED: return
            if dst is not None: regs[dst] = r
            if normal is not None: s.jump(st, fr, normal)
            return
        mdl = s.models.get(callee)
        if mdl is None and s.model_prefixes:
            for pre, fn in s.model_prefixes:
                if callee.startswith(pre): mdl = fn; break
        if mdl is not None:
            fr.inv = (normal, unwind) if normal is not None else None
            s._cur_callee = callee
            r = mdl(st, av)           # may raise Throw / PathEnd
            if r is FORKED: return
            fr.inv = None
            if dst is not None: regs[dst] = r
            if normal is not None: s.jump(st, fr, normal)
            return
        if callee in s.M.funcs:
            fr.inv = (normal, unwind) if normal is not None else None
            s.push_frame(st, callee, av, dst)
            return
        raise Inconclusive('nomodel', 'no model for external function ' + callee)

    def fork_values(s, st, work, v, what, resume):
        """concretise v by forking over all feasible values; `resume(state, value)` finishes the
        instruction in each state (the current instruction is NOT re-executed)."""
        vals = s.values_of(st, v, what=what)
        if not vals: raise Inconclusive('infeasible', 'no feasible value for ' + what)
        for x, m in vals[1:]:
            s2 = st.fork(); s2.pc.append(v == x); s2.model = m; s.stats['forks'] += 1
            try:
                resume(s2, x); work.append(s2)
            except Throw:
                r = s.unwind(s2)
                if r is None: work.append(s2)
                else: work.append(s2); s2.frames = []; s2.env['_final'] = r
        st.pc.append(v == vals[0][0]); st.model = vals[0][1]
        resume(st, vals[0][0])

    def intrinsic(s, st, fr, callee, args, work, dst):
        if callee.startswith(('llvm.lifetime', 'llvm.dbg', 'llvm.experimental.noalias', 'llvm.invariant', 'llvm.prefetch', 'llvm.donothing')): return None
        if callee.startswith('llvm.assume'):
            return None
        if callee.startswith(('llvm.memcpy', 'llvm.memmove')):
            d, sp, n = args[0], args[1], args[2]
            if isinstance(n, Undef): raise Bug('undef', 'memcpy with uninitialised length', s._m(st))
            n = s.concretize(st, n, 'memcpy length')
            s.memcpy(st, d, sp, n, 'memcpy'); return None
        if callee.startswith('llvm.memset'):
            d, v, n = args[0], args[1], args[2]
            if isinstance(n, Undef): raise Bug('undef', 'memset with uninitialised length', s._m(st))
            n = s.concretize(st, n, 'memset length')
            if n:
                o = s.obj_of(st, d, 'memset', write=True); s.bounds(st, o, d.off, n, 'memset')
                off = to_signed(s.concretize(st, d.off, 'memset offset'), 64); s.kill_overlaps(o, off, n)
                if not isinstance(v, Undef):
                    if v.__class__ is int and n >= 8 and n % 8 == 0 and v == 0:
                        for i in range(0, n, 8): o.cells[off + i] = (8, 0)
                    else:
                        for i in range(n): o.cells[off + i] = (1, v)
            return None
        base = callee.split('.')[1]
        if base in ('umax', 'umin', 'smax', 'smin'):
            a, b = args; bits = int(callee.rsplit('.i', 1)[1])
            c = s.icmp({'umax': 'ugt', 'umin': 'ult', 'smax': 'sgt', 'smin': 'slt'}[base], bits, a, b)
            if c.__class__ is int: return a if c else b
            return simp(z3.If(c, bv(a, bits), bv(b, bits)))
        if base == 'abs':
            a = args[0]; bits = int(callee.rsplit('.i', 1)[1])
            if a.__class__ is int: return mask(abs(to_signed(a, bits)), bits)
            return simp(z3.If(a < 0, -a, a))
        if base == 'bswap':
            a = args[0]; bits = int(callee.rsplit('.i', 1)[1]); n = bits // 8
            if a.__class__ is int: return int.from_bytes(a.to_bytes(n, 'little'), 'big')
            return simp(z3.Concat(*[z3.Extract(8 * i + 7, 8 * i, a) for i in range(n)]))
        if base in ('fshl', 'fshr'):
            a, b, c = args; bits = int(callee.rsplit('.i', 1)[1])
            if all(x.__class__ is int for x in args):
                c %= bits
                if base == 'fshl': return mask((a << c) | (b >> (bits - c)), bits) if c else a
                return mask((b >> c) | (a << (bits - c)), bits) if c else b
            A, B, C = bv(a, bits), bv(b, bits), z3.URem(bv(c, bits), bits)
            cat = z3.Concat(A, B)
            if base == 'fshl': return simp(z3.Extract(2 * bits - 1, bits, cat << z3.ZeroExt(bits, C)))
            return simp(z3.Extract(bits - 1, 0, z3.LShR(cat, z3.ZeroExt(bits, C))))
        if base in ('ctlz', 'cttz', 'ctpop'):
            a = args[0]; bits = int(callee.rsplit('.i', 1)[1])
            if a.__class__ is int:
                if base == 'ctpop': return bin(a).count('1')
                if a == 0: return bits
                if base == 'ctlz': return bits - a.bit_length()
                return (a & -a).bit_length() - 1
            r = z3.BitVecVal(bits, bits)
            rng = range(bits) if base == 'ctlz' else range(bits - 1, -1, -1)
            for i in rng:
                r = z3.If(z3.Extract(i, i, a) == 1, z3.BitVecVal((bits - 1 - i) if base == 'ctlz' else i, bits), r)
            if base == 'ctpop':
                r = z3.BitVecVal(0, bits)
                for i in range(bits): r = r + z3.ZeroExt(bits - 1, z3.Extract(i, i, a))
            return simp(r)
        if '.with.overflow' in callee:
            a, b = args; bits = int(callee.rsplit('.i', 1)[1]); kind = base
            if a.__class__ is int and b.__class__ is int:
                if kind[0] == 'u':
                    r = {'uadd': a + b, 'usub': a - b, 'umul': a * b}[kind]
                    return Agg([mask(r, bits), int(not (0 <= r < (1 << bits)))])
                sa, sb = to_signed(a, bits), to_signed(b, bits)
                r = {'sadd': sa + sb, 'ssub': sa - sb, 'smul': sa * sb}[kind]
                return Agg([mask(r, bits), int(not (-(1 << (bits - 1)) <= r < (1 << (bits - 1))))])
            A, B = bv(a, bits), bv(b, bits)
            if kind == 'uadd': return Agg([simp(A + B), simp(z3.Not(z3.BVAddNoOverflow(A, B, False)))])
            if kind == 'usub': return Agg([simp(A - B), simp(z3.ULT(A, B))])
            if kind == 'umul': return Agg([simp(A * B), simp(z3.Not(z3.BVMulNoOverflow(A, B, False)))])
            if kind == 'sadd': return Agg([simp(A + B), simp(z3.Not(z3.And(z3.BVAddNoOverflow(A, B, True), z3.BVAddNoUnderflow(A, B))))])
            if kind == 'ssub': return Agg([simp(A - B), simp(z3.Not(z3.And(z3.BVSubNoOverflow(A, B), z3.BVSubNoUnderflow(A, B, True))))])
            if kind == 'smul': return Agg([simp(A * B), simp(z3.Not(z3.And(z3.BVMulNoOverflow(A, B, True), z3.BVMulNoUnderflow(A, B))))])
        if base in ('fabs', 'ceil', 'floor', 'trunc', 'round', 'rint', 'nearbyint', 'sqrt', 'fmuladd', 'fma', 'copysign', 'minnum', 'maxnum'):
            bits = 64 if callee.endswith('f64') else 32
            return s.fmath(st, base, bits, args)
        if callee == 'llvm.eh.typeid.for':
            a = args[0]
            nm = s.M.gname.get(a.obj) if isinstance(a, P) else None
            if nm is None: raise Inconclusive('unsupported', 'llvm.eh.typeid.for on %r' % (a,))
            return s.sel_id(nm)
        if callee == 'llvm.ubsantrap':
            kinds = {0: 'add-overflow', 1: 'builtin-unreachable', 2: 'cfi-check-fail', 3: 'divrem-overflow', 4: 'dynamic-type-cache-miss',
                     5: 'float-cast-overflow', 6: 'function-type-mismatch', 7: 'implicit-conversion', 8: 'invalid-builtin', 9: 'invalid-objc-cast',
                     10: 'load-invalid-value', 11: 'missing-return', 12: 'mul-overflow', 13: 'negate-overflow', 14: 'nullability-arg',
                     15: 'nullability-return', 16: 'nonnull-arg', 17: 'nonnull-return', 18: 'out-of-bounds', 19: 'pointer-overflow',
                     20: 'shift-out-of-bounds', 21: 'sub-overflow', 22: 'type-mismatch', 23: 'alignment-assumption', 24: 'vla-bound-not-positive'}
            raise Bug('ubsan', 'undefined behaviour: ' + kinds.get(args[0], str(args[0])), s._m(st))
        if callee == 'llvm.trap': raise Bug('trap', 'llvm.trap reached (abort)', s._m(st))
        if callee.startswith('llvm.stacksave'): return NULL
        if callee.startswith('llvm.stackrestore'): return None
        if callee.startswith('llvm.expect'): return args[0]
        if callee.startswith(('llvm.objectsize', 'llvm.is.constant')):
            return 0 if 'is.constant' in callee else mask(-1, 64)
        if callee.startswith('llvm.va_'): raise Inconclusive('unsupported', 'varargs')
        raise Inconclusive('nomodel', 'intrinsic ' + callee)

    def fmath(s, st, base, bits, args):
        if any(isinstance(a, Undef) for a in args): return Undef(bits)
        cv, pk = (b2d, d2b) if bits == 64 else (b2f, f2b)
        if all(a.__class__ is int for a in args):
            x = cv(args[0])
            if base == 'fabs': return args[0] & ~(1 << (bits - 1))
            if base in ('ceil', 'floor', 'trunc', 'round', 'rint', 'nearbyint'):
                if x != x or abs(x) == float('inf'): return args[0]
                if base == 'ceil': r = float(math.ceil(x))
                elif base == 'floor': r = float(math.floor(x))
                elif base == 'trunc': r = float(math.trunc(x))
                elif base == 'round': r = float(math.floor(abs(x) + 0.5)) * (1 if x >= 0 else -1)
                else: r = float(round(x))
                if r == 0: r = math.copysign(0.0, x)
                return pk(r)
            if base == 'sqrt': return pk(math.sqrt(x) if x >= 0 else float('nan'))
            if base == 'fmuladd': return s.fbin('fadd', bits, s.fbin('fmul', bits, args[0], args[1]), args[2])
            if base == 'copysign': return (args[0] & ~(1 << (bits - 1))) | (args[1] & (1 << (bits - 1)))
            y = cv(args[1])
            if base == 'minnum': return pk(min(x, y) if x == x and y == y else (y if x != x else x))
            if base == 'maxnum': return pk(max(x, y) if x == x and y == y else (y if x != x else x))
            raise Inconclusive('unsupported', 'fp intrinsic ' + base)
        A = tofp(args[0], bits)
        if base == 'fabs': return simp(z3.fpToIEEEBV(z3.fpAbs(A)))
        if base == 'ceil': return simp(z3.fpToIEEEBV(z3.fpRoundToIntegral(z3.RTP(), A)))
        if base == 'floor': return simp(z3.fpToIEEEBV(z3.fpRoundToIntegral(z3.RTN(), A)))
        if base == 'trunc': return simp(z3.fpToIEEEBV(z3.fpRoundToIntegral(z3.RTZ(), A)))
        if base == 'round': return simp(z3.fpToIEEEBV(z3.fpRoundToIntegral(z3.RNA(), A)))
        if base in ('rint', 'nearbyint'): return simp(z3.fpToIEEEBV(z3.fpRoundToIntegral(RNE, A)))
        if base == 'sqrt': return simp(z3.fpToIEEEBV(z3.fpSqrt(RNE, A)))
        if base == 'fmuladd': return s.fbin('fadd', bits, s.fbin('fmul', bits, args[0], args[1]), args[2])
        if base == 'copysign':
            sm = z3.BitVecVal(1 << (bits - 1), bits)
            return simp((bv(args[0], bits) & ~sm) | (bv(args[1], bits) & sm))
        raise Inconclusive('unsupported', 'symbolic fp intrinsic ' + base)

class Lin:
    """integer value that is a linear combination of object base addresses plus an offset (arises when the optimiser
    reassociates sums of pointer differences); becomes an ordinary value again as soon as the bases cancel"""
    __slots__ = ('co', 'off')
    def __init__(s, co, off): s.co, s.off = co, off
    def __repr__(s): return 'Lin(%r,%r)' % (s.co, s.off)
def to_lin(v):
    c = v.__class__
    if c is P: return ({v.obj: 1} if v.obj else {}), v.off
    if c is Lin: return dict(v.co), v.off
    if c is int or isinstance(v, BitVecRef): return {}, v
    return None
def from_lin(co, off):
    co = {k: v for k, v in co.items() if v % (1 << 64)}
    off = simp(off) if is_sym(off) else mask(off, 64)
    if not co: return off
    if len(co) == 1 and list(co.values())[0] == 1: return P(list(co)[0], off)
    return Lin(co, off)

def partial_value(bs):
    """bytes (little endian; ints / 8-bit terms / Undef) -> int, term, Partial or Undef"""
    if all(isinstance(b, Undef) for b in bs): return Undef(8 * len(bs))
    if any(isinstance(b, Undef) for b in bs): return Partial(list(bs))
    if all(b.__class__ is int for b in bs):
        r = 0
        for i, b in enumerate(bs): r |= b << (8 * i)
        return r
    return simp(z3.Concat(*[bv(b, 8) for b in reversed(bs)])) if len(bs) > 1 else bs[0]
def partial_op(op, a, k, bits):
    """byte-granular operations on a partially initialised value with a constant: shifts by whole bytes, masks of whole bytes"""
    n = bits // 8; bs = list(a.bytes) + [Undef(8)] * (n - len(a.bytes))
    if op == 'lshr' and k % 8 == 0: return partial_value((bs[k // 8:] + [0] * n)[:n])
    if op == 'shl' and k % 8 == 0: return partial_value(([0] * (k // 8) + bs)[:n])
    if op == 'and':
        out = []
        for i in range(n):
            m = (k >> (8 * i)) & 0xff
            if m == 0: out.append(0)
            elif m == 0xff: out.append(bs[i])
            elif isinstance(bs[i], Undef): return None
            else: out.append(bs[i] & m if bs[i].__class__ is int else simp(bv(bs[i], 8) & m))
        return partial_value(out)
    return None

class _Forked: pass
FORKED = _Forked()
