"""models_zlib.py - stand-ins for zlib.

identity framing: djinterop::engine::zlib_compress(x) = BE32(len(x)) ++ x and zlib_uncompress its inverse.
The codecs never look inside the compressed stream, so this removes deflate from every path and loses nothing
for the codec properties; the real wrappers are checked separately against the contract stub (C05 h_zlib).
"""
import z3
from .ir import P, NULL, Undef
from . import engine as E

ZC = '_ZN9djinterop6engine13zlib_compressERKSt6vectorISt4byteSaIS2_EES4_'
ZU = '_ZN9djinterop6engine15zlib_uncompressERKSt6vectorISt4byteSaIS2_EES4_'

def vec_read(eng, st, v):
    b = eng.load(st, v, 8); e = eng.load(st, P(v.obj, v.off + 8), 8)
    if isinstance(b, Undef) or isinstance(e, Undef): raise E.Bug('undef', 'uninitialised vector passed to zlib wrapper', eng._m(st))
    if b.__class__ is int and b == 0: return NULL, 0
    n = e.off - b.off
    if n.__class__ is not int: n = eng.concretize(st, E.simp(n), 'vector size')
    return b, E.to_signed(n, 64)
def vec_write(eng, st, ret, p, n):
    end = P(p.obj, p.off + n) if n else p
    if n == 0: p = end = NULL
    eng.store(st, ret, 8, p); eng.store(st, P(ret.obj, ret.off + 8), 8, end); eng.store(st, P(ret.obj, ret.off + 16), 8, end)

def install_identity(eng):
    def m_compress(st, a):
        ret, inv = a[0], a[1]
        b, n = vec_read(eng, st, inv)
        p = st.alloc(n + 4, 'heap', 'framed')
        o = st.mem[p.obj]
        for i in range(4): o.cells[i] = (1, (n >> (8 * (3 - i))) & 0xff)
        if n: eng.memcpy(st, P(p.obj, 4), b, n, 'zlib_compress(identity)')
        vec_write(eng, st, ret, p, n + 4)
    def m_uncompress(st, a):
        ret, inv = a[0], a[1]
        b, n = vec_read(eng, st, inv)
        if n == 0:
            vec_write(eng, st, ret, NULL, 0); return
        if n < 4: eng.throw_std(st, 'St12length_error', 'compressed data < 4 bytes')
        # the payload is whatever follows the 4-byte prefix (an arbitrary inflate result is modelled by the
        # harness making these bytes arbitrary); apparent size 0 => empty
        hdr = [eng.load(st, P(b.obj, b.off + i), 1) for i in range(4)]
        if all(h.__class__ is int for h in hdr):
            if not any(hdr):
                vec_write(eng, st, ret, NULL, 0); return
        else:
            z = z3.And(*[E.bv(h, 8) == 0 for h in hdr])
            if eng.decide(st, z):
                vec_write(eng, st, ret, NULL, 0); return
        m = n - 4
        if m == 0:
            vec_write(eng, st, ret, NULL, 0); return
        p = st.alloc(m, 'heap', 'inflated')
        eng.memcpy(st, p, P(b.obj, b.off + 4), m, 'zlib_uncompress(identity)')
        vec_write(eng, st, ret, p, m)
    eng.models[ZC] = m_compress
    eng.models[ZU] = m_uncompress
