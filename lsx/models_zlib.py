"""models_zlib.py - stand-ins for zlib.

identity framing: djinterop::engine::zlib_compress(x) = BE32(len(x)) ++ x and zlib_uncompress its inverse.
The codecs never look inside the compressed stream, so this removes deflate from every path and loses nothing
for the codec properties; the real wrappers are checked separately against the contract stub (C05 h_zlib).
"""
import z3
from .ir import P, NULL, Undef
from . import engine as E

ZC = '_ZN9djinterop6engine13zlib_compressERKSt6vectorISt4byteSaIS2_EES4_'
ZU = '_ZN9djinterop6engine15zlib_uncompressERKSt6vectorISt4byteSaIS2_EES4_'

def vec_read(eng, st, v):
    b = eng.load(st, v, 8); e = eng.load(st, P(v.obj, v.off + 8), 8)
    if isinstance(b, Undef) or isinstance(e, Undef): raise E.Bug('undef', 'uninitialised vector passed to zlib wrapper', eng._m(st))
    if b.__class__ is int and b == 0: return NULL, 0
    n = e.off - b.off
    if n.__class__ is not int: n = eng.concretize(st, E.simp(n), 'vector size')
    return b, E.to_signed(n, 64)
def vec_write(eng, st, ret, p, n):
    end = P(p.obj, p.off + n) if n else p
    if n == 0: p = end = NULL
    eng.store(st, ret, 8, p); eng.store(st, P(ret.obj, ret.off + 8), 8, end); eng.store(st, P(ret.obj, ret.off + 16), 8, end)

def install_identity(eng):
    def m_compress(st, a):
        ret, inv = a[0], a[1]
        b, n = vec_read(eng, st, inv)
        p = st.alloc(n + 4, 'heap', 'framed')
        o = st.mem[p.obj]
        for i in range(4): o.cells[i] = (1, (n >> (8 * (3 - i))) & 0xff)
        if n: eng.memcpy(st, P(p.obj, 4), b, n, 'zlib_compress(identity)')
        vec_write(eng, st, ret, p, n + 4)
    def m_uncompress(st, a):
        ret, inv = a[0], a[1]
        b, n = vec_read(eng, st, inv)
        if n == 0:
            vec_write(eng, st, ret, NULL, 0); return
        if n < 4: eng.throw_std(st, 'St12length_error', 'compressed data < 4 bytes')
        # the payload is whatever follows the 4-byte prefix (an arbitrary inflate result is modelled by the
        # harness making these bytes arbitrary); apparent size 0 => empty
        hdr = [eng.load(st, P(b.obj, b.off + i), 1) for i in range(4)]
        if all(h.__class__ is int for h in hdr):
            if not any(hdr):
                vec_write(eng, st, ret, NULL, 0); return
        else:
            z = z3.And(*[E.bv(h, 8) == 0 for h in hdr])
            if eng.decide(st, z):
                vec_write(eng, st, ret, NULL, 0); return
        m = n - 4
        if m == 0:
            vec_write(eng, st, ret, NULL, 0); return
        p = st.alloc(m, 'heap', 'inflated')
        eng.memcpy(st, p, P(b.obj, b.off + 4), m, 'zlib_uncompress(identity)')
        vec_write(eng, st, ret, p, m)
    eng.models[ZC] = m_compress
    eng.models[ZU] = m_uncompress

# ---------------------------------------------------------------------------------------------------------------
# contract stub of libz for checking the REAL wrappers zlib_uncompress / zlib_compress (encode_decode_utils.cpp).
# inflate()/deflate() behave arbitrarily within what zlib.h documents; the stub checks that the window
# [next_in, next_in+avail_in) it is handed lies inside the caller's buffer and is the next unread part of it, and
# detects a wrapper loop that can repeat the same state forever.
Z_OK, Z_STREAM_END, Z_NEED_DICT, Z_ERRNO, Z_STREAM_ERROR, Z_DATA_ERROR, Z_MEM_ERROR, Z_BUF_ERROR = 0, 1, 2, -1, -2, -3, -4, -5
Z_FINISH = 4
OFF = {'next_in': 0, 'avail_in': 8, 'total_in': 16, 'next_out': 24, 'avail_out': 32, 'total_out': 40, 'state': 56}

def install_contract(eng):
    M = eng.models
    def zs(st): return st.env.setdefault('z', {'calls': 0, 'consumed': 0, 'produced': [], 'fulls': 0, 'last': None, 'pending': False, 'ended': False, 'src': None})
    def rd32(st, p, k): return eng.concretize(st, eng.load(st, P(p.obj, p.off + OFF[k]), 4), 'z_stream.' + k)
    def window(st, strm, what):
        z = zs(st)
        nin = eng.load(st, P(strm.obj, strm.off + OFF['next_in']), 8); ain = rd32(st, strm, 'avail_in')
        nout = eng.load(st, P(strm.obj, strm.off + OFF['next_out']), 8); aout = rd32(st, strm, 'avail_out')
        if isinstance(nin, Undef) or isinstance(nout, Undef): raise E.Bug('undef', what + ' called with uninitialised next_in/next_out', eng._m(st))
        if ain:
            if not isinstance(nin, P) or nin.obj == 0: raise E.Bug('null', what + ': avail_in > 0 with a null next_in', eng._m(st))
            o = eng.obj_of(st, nin, what + ' input window')
            eng.bounds(st, o, nin.off, ain, what + ' input window [next_in, next_in+avail_in) (the callee may read all of it)')
            if z['src'] is None: z['src'] = (nin.obj, nin.off)
            exp = z['src'][1] + z['consumed']
            if nin.obj != z['src'][0] or nin.off != exp:
                raise E.Bug('assert', '%s is fed bytes at offset %s of the source buffer, expected the next unread byte at offset %s (bytes skipped or fed twice)' % (what, nin.off, exp), eng._m(st))
        if aout:
            o = eng.obj_of(st, nout, what + ' output window', write=True)
            eng.bounds(st, o, nout.off, aout, what + ' output window')
        return z, nin, ain, nout, aout
    def advance(st, strm, z, nin, ain, nout, aout, c, p, tag):
        if c:
            eng.store(st, P(strm.obj, strm.off + OFF['next_in']), 8, P(nin.obj, nin.off + c))
        eng.store(st, P(strm.obj, strm.off + OFF['avail_in']), 4, ain - c)
        if p:
            o = st.obj_w(nout.obj); off = E.to_signed(nout.off, 64); eng.kill_overlaps(o, off, p)
            for i in range(p):
                v = st.new_input('%s[%d]' % (tag, len(z['produced'])), 8, 'env'); o.cells[off + i] = (1, v); z['produced'].append(v)
            eng.store(st, P(strm.obj, strm.off + OFF['next_out']), 8, P(nout.obj, nout.off + p))
        eng.store(st, P(strm.obj, strm.off + OFF['avail_out']), 4, aout - p)
        z['consumed'] += c; z['calls'] += 1
        z['pending'] = bool(p and p == aout)
        if p and p == aout: z['fulls'] += 1

    def m_inflate_init(st, a):
        r = eng.choose(st, 'inflateInit', 2)
        zs(st)
        return Z_OK if r == 0 else E.mask(Z_MEM_ERROR, 32)
    def m_inflate(st, a):
        strm = a[0]
        z, nin, ain, nout, aout = window(st, strm, 'inflate')
        if z['calls'] >= 8: raise E.Inconclusive('cap', 'more than 8 inflate calls (stub bound)')
        opts = []
        if ain > 0:
            opts = [('ok', ain, 0), ('ok', ain, min(3, aout)), ('end', ain, min(2, aout)), ('end', ain - min(4, ain), 0), ('data', 0, 0), ('mem', 0, 0), ('dict', 0, 0)]
            if z['fulls'] < 2: opts.append(('ok', ain, aout))
        else:
            opts = [('buf', 0, 0)]
            if z['pending']: opts += [('ok', 0, min(3, aout)), ('end', 0, min(2, aout))]
        k = eng.choose(st, 'inflate', len(opts))
        kind, c, p = opts[k]
        if kind == 'ok' and c + p == 0: kind = 'buf'
        if kind == 'buf' and z['last'] == ('buf', ain, aout):
            raise E.Bug('nonterm', 'the wrapper calls inflate again in exactly the state in which it just returned Z_BUF_ERROR (no input left, nothing produced): '
                        'it loops forever on a truncated stream', eng._m(st))
        st.log.append(('inflate', kind, ain, c, p))
        advance(st, strm, z, nin, ain, nout, aout, c, p, 'inflated')
        z['last'] = (kind, ain - c, aout - p) if kind == 'buf' else None
        if kind == 'buf': z['last'] = ('buf', ain, aout)
        return E.mask({'ok': Z_OK, 'end': Z_STREAM_END, 'data': Z_DATA_ERROR, 'mem': Z_MEM_ERROR, 'dict': Z_NEED_DICT, 'buf': Z_BUF_ERROR}[kind], 32)
    def m_inflate_end(st, a):
        zs(st)['ended'] = True; return Z_OK
    def m_deflate_init(st, a):
        r = eng.choose(st, 'deflateInit', 2)
        zs(st)
        return Z_OK if r == 0 else E.mask(Z_MEM_ERROR, 32)
    def m_deflate(st, a):
        strm = a[0]; flush = eng.concretize(st, a[1], 'deflate flush')
        z, nin, ain, nout, aout = window(st, strm, 'deflate')
        if z['calls'] >= 8: raise E.Inconclusive('cap', 'more than 8 deflate calls (stub bound)')
        opts = [(ain, 0), (ain, min(5, aout))]
        if z['fulls'] < 2: opts.append((ain, aout))
        if z['pending']: opts = [(0, min(5, aout)), (0, 0)] + ([(0, aout)] if z['fulls'] < 2 else [])
        k = eng.choose(st, 'deflate', len(opts))
        c, p = opts[k]
        st.log.append(('deflate', flush, ain, c, p))
        advance(st, strm, z, nin, ain, nout, aout, c, p, 'deflated')
        z['flush'] = flush
        if flush == Z_FINISH and not z['pending']:
            z['finished'] = True; return Z_STREAM_END
        return Z_OK
    def m_deflate_end(st, a):
        zs(st)['ended'] = True; return Z_OK
    M['inflateInit_'] = m_inflate_init; M['inflate'] = m_inflate; M['inflateEnd'] = m_inflate_end
    M['deflateInit_'] = m_deflate_init; M['deflate'] = m_deflate; M['deflateEnd'] = m_deflate_end

    def v_check(st, a):
        """verif_zlib_check(out_ptr, out_len, src_len, skip): the wrapper's result must be exactly the bytes the callee produced, in
        order (after `skip` header bytes), and every source byte from the start of the fed region must have been offered"""
        z = zs(st)
        outp, n, srclen, skip = a[0], eng.concretize(st, a[1], 'len'), eng.concretize(st, a[2], 'srclen'), eng.concretize(st, a[3], 'skip')
        prod = z['produced']
        if n - skip != len(prod):
            raise E.Bug('assert', 'wrapper returned %d payload bytes but the callee produced %d' % (n - skip, len(prod)), eng._m(st))
        diff = []
        for i, v in enumerate(prod):
            b = eng.load(st, P(outp.obj, outp.off + skip + i), 1)
            if b is v or (E.is_sym(b) and b.get_id() == v.get_id()): continue
            diff.append(E.bv(b, 8) != v)
        if diff: eng.check_bug(st, z3.Or(*diff), 'assert', 'wrapper output differs from the bytes the callee produced')
        st.log.append(('reach', 'zlib-output-checked'))
        if not z['ended']: raise E.Bug('assert', 'inflateEnd/deflateEnd not called on a successful return (leak)', eng._m(st))
        return z['consumed']
    M['verif_zlib_check'] = v_check
    M['verif_zlib_finished'] = lambda st, a: 1 if zs(st).get('finished') else 0
