"""models_sqlite.py - stand-in for SQLite at the sqlite3_* C API boundary.  The real sqlite_modern_cpp.h is executed on top.

abstract backend: statements are classified from their real SQL text (read / write / transaction control / ddl);
  a read statement yields an arbitrary number (0..max_rows) of rows whose columns are arbitrary values of the
  requested type; a write statement succeeds or - in fault-injection mode, at most once per run, at a position the
  executor forks over - fails with an error code.  The model keeps the transaction state and counts completed writes
  outside / inside a transaction (SQLite's documented statement-level atomicity: a failing statement has no effect).
kv backend (added by install_kv): single-table INSERT / SELECT ... WHERE id = ? / UPDATE ... WHERE id = ? / DELETE get
  their meaning over a table = map(id -> column -> value); column lists and ? positions are parsed from the real SQL.

Everything here is part of the trusted base of the checks that use it and is named in their evidence.
"""
import re, z3
from .ir import P, NULL, Undef, FnPtr
from . import engine as E

SQLITE_OK, SQLITE_ERROR, SQLITE_BUSY, SQLITE_CONSTRAINT, SQLITE_FULL, SQLITE_ROW, SQLITE_DONE = 0, 1, 5, 19, 13, 100, 101
T_INT, T_FLOAT, T_TEXT, T_BLOB, T_NULL = 1, 2, 3, 4, 5

PRAGMA_QUERIES_WITH_ARG = {'TABLE_INFO', 'TABLE_XINFO', 'INDEX_LIST', 'INDEX_INFO', 'INDEX_XINFO', 'FOREIGN_KEY_LIST', 'FOREIGN_KEY_CHECK', 'INTEGRITY_CHECK', 'QUICK_CHECK', 'TABLE_LIST'}
PRAGMA_QUERIES = {'DATABASE_LIST', 'COLLATION_LIST', 'COMPILE_OPTIONS', 'FUNCTION_LIST', 'MODULE_LIST', 'PRAGMA_LIST', 'DATA_VERSION', 'FREELIST_COUNT', 'PAGE_COUNT', 'PAGE_SIZE',
                  'SCHEMA_VERSION', 'USER_VERSION', 'ENCODING', 'FOREIGN_KEYS', 'RECURSIVE_TRIGGERS', 'JOURNAL_MODE', 'APPLICATION_ID', 'AUTO_VACUUM', 'CACHE_SIZE', 'SYNCHRONOUS'}
def classify(sql):
    s = sql.strip().upper()
    w = re.match(r'[A-Z]+', s)
    w = w.group(0) if w else ''
    if w in ('SELECT', 'WITH', 'EXPLAIN'): return 'read'
    if w == 'PRAGMA':
        # only pragmas that are documented as pure queries count as reads; a pragma with '=' or an argument that changes state, and any
        # pragma not listed here (optimize, incremental_vacuum, wal_checkpoint, ...), is a write (found with seeded change C16-3)
        m = re.match(r'PRAGMA\s+(?:\w+\.)?(\w+)\s*(\(.*\))?\s*;?\s*$', s)
        if m is None or '=' in s: return 'write'
        name, arg = m.group(1), m.group(2)
        if name in PRAGMA_QUERIES_WITH_ARG: return 'read'
        if name in PRAGMA_QUERIES and not arg: return 'read'
        return 'write'
    if w in ('INSERT', 'UPDATE', 'DELETE', 'REPLACE'): return 'write'
    if w in ('BEGIN', 'COMMIT', 'END', 'ROLLBACK', 'SAVEPOINT', 'RELEASE'): return 'txn'
    if w in ('ATTACH', 'DETACH', 'CREATE', 'DROP', 'ALTER', 'VACUUM', 'REINDEX', 'ANALYZE'): return 'ddl'
    return 'other'

class Stmt:
    def __init__(s, sql):
        s.sql = sql; s.kind = classify(sql); s.binds = {}; s.pos = 0; s.nrows = None; s.rows = None; s.stepped = False; s.cur = {}
    def clone(s):
        n = Stmt.__new__(Stmt); n.__dict__.update(s.__dict__); n.binds = dict(s.binds); n.cur = dict(s.cur)
        n.rows = None if s.rows is None else [dict(r) for r in s.rows]
        return n

class Sq:
    def __init__(s):
        s.stmts = {}; s.log = []; s.txn = 0; s.w_auto = 0; s.w_txn = 0; s.failed = None; s.opens = []; s.changes = None; s.rowid = None
        s.tables = {}; s.nextid = {}; s.txn_snapshot = None; s.began = 0; s.committed = 0; s.rolled = 0
        s.rel = None; s.rel_snapshot = None        # relational back end (models_rel.RelDB)
        s.sp_stack = []; s.sp_started = False      # SAVEPOINT stack: (name, key/value snapshot, relational snapshot); transaction opened by a SAVEPOINT
    def clone(s):
        n = Sq.__new__(Sq); n.__dict__.update(s.__dict__)
        n.stmts = {k: v.clone() for k, v in s.stmts.items()}; n.log = list(s.log); n.opens = list(s.opens)
        n.tables = {t: {k: dict(r) for k, r in rows.items()} for t, rows in s.tables.items()}; n.nextid = dict(s.nextid)
        n.txn_snapshot = s.txn_snapshot
        n.rel = s.rel.clone() if s.rel is not None else None; n.rel_snapshot = s.rel_snapshot
        n.sp_stack = list(s.sp_stack)
        return n

def install(eng, cfg=None):
    """cfg keys: fail ('none'|'one'), max_rows (int), null ('never'|'choose'), text(st, stmt, col) -> bytes|list,
    blob(st, stmt, col) -> list of byte values, rows(st, stmt) -> int or None, column(st, stmt, col, kind) -> value or None"""
    cfg = dict(cfg or {})
    eng.sq_cfg = cfg
    M = eng.models
    def sq(st):
        q = st.env.get('sq')
        if q is None: q = st.env['sq'] = Sq()
        return q
    def stmt_of(st, h):
        q = sq(st)
        if not isinstance(h, P) or h.obj not in q.stmts: raise E.Bug('badcall', 'sqlite3 call on an invalid statement handle', eng._m(st))
        return q, q.stmts[h.obj]
    def text_buf(st, data, name='sqltext'):
        """data: bytes or list of byte values (ints / z3 terms)"""
        vals = list(data)
        p = st.alloc(len(vals) + 1, 'heap', name)
        o = st.mem[p.obj]
        for i, v in enumerate(vals): o.cells[i] = (1, v)
        o.cells[len(vals)] = (1, 0)
        return p

    def m_open(st, a):
        name = eng.read_cstr(st, a[0]).decode('latin1')
        flags = eng.concretize(st, a[2], 'open flags')
        h = st.alloc(8, 'heap', 'sqlite3'); eng.store(st, a[1], 8, h)
        q = sq(st); q.opens.append((name, flags)); q.log.append(('open', name, flags))
        return SQLITE_OK
    M['sqlite3_open_v2'] = m_open
    M['sqlite3_extended_result_codes'] = lambda st, a: SQLITE_OK
    def m_close(st, a):
        # closing a connection rolls an open transaction back (as SQLite does); the committed store stays (one store per run: "the file")
        q = sq(st); q.log.append(('close',))
        if q.txn:
            q.sp_stack = []; q.sp_started = False
            q.txn = 0; q.w_txn = 0; q.rolled += 1; q.log.append(('step', 'txn', 'ROLLBACK (implicit: connection closed inside a transaction)', {}, 'ok'))
            if q.txn_snapshot is not None: q.tables = q.txn_snapshot; q.txn_snapshot = None
            if q.rel is not None and q.rel_snapshot is not None: q.rel.restore(q.rel_snapshot); q.rel_snapshot = None
        return SQLITE_OK
    M['sqlite3_close_v2'] = m_close
    M['sqlite3_close'] = m_close
    M['sqlite3_busy_timeout'] = lambda st, a: SQLITE_OK

    def m_prepare(st, a):
        n = a[2]
        n = eng.concretize(st, n, 'sql length') if not isinstance(n, Undef) else -1
        n = E.to_signed(n, 32)
        if n >= 0:
            bs = eng.read_bytes(st, a[1], n)
            if any(b.__class__ is not int for b in bs): raise E.Inconclusive('symsql', 'SQL text contains symbolic bytes')
            sql = bytes(bs).split(b'\0')[0].decode('latin1')
        else:
            sql = eng.read_cstr(st, a[1]).decode('latin1')
        q = sq(st)
        h = st.alloc(8, 'heap', 'stmt'); q.stmts[h.obj] = Stmt(sql)
        eng.store(st, a[3], 8, h); q.log.append(('prepare', sql))
        if isinstance(a[4], P) and a[4].obj: eng.store(st, a[4], 8, P(a[1].obj, a[1].off + len(sql)))
        hook = cfg.get('on_prepare')
        if hook: hook(st, q, q.stmts[h.obj])
        return SQLITE_OK
    M['sqlite3_prepare_v2'] = m_prepare

    def bind(kind):
        def f(st, a):
            q, s_ = stmt_of(st, a[0])
            idx = eng.concretize(st, a[1], 'bind index')
            if kind == 'int': v = ('int', a[2] if not isinstance(a[2], E.BoolRef) else E.bv(a[2], 64))
            elif kind == 'int32':
                x = a[2]
                v = ('int', E.mask(E.to_signed(x, 32), 64) if x.__class__ is int else (x if isinstance(x, Undef) else E.simp(z3.SignExt(32, E.bv(x, 32)))))
            elif kind == 'double': v = ('real', a[2])
            elif kind == 'null': v = ('null',)
            else:
                n = a[3]
                if isinstance(a[2], P) and a[2].obj == 0 and a[2].off == 0: v = ('null',)
                else:
                    n = E.to_signed(eng.concretize(st, n, 'bind length'), 32)
                    if n < 0:
                        # NUL-terminated text: a symbolic byte may itself be the terminator (fork on it)
                        bs = []; i = 0
                        while True:
                            b = eng.load(st, P(a[2].obj, a[2].off + i), 1)
                            if isinstance(b, Undef): raise E.Bug('undef', 'uninitialised byte in a C string bound to an SQL parameter', eng._m(st))
                            if b.__class__ is int:
                                if b == 0: break
                            elif eng.decide(st, E.bv(b, 8) == 0): break
                            bs.append(b); i += 1
                            if i > 4096: raise E.Inconclusive('cap', 'unterminated C string')
                    else: bs = eng.read_bytes(st, a[2], n)
                    for b in bs:
                        if isinstance(b, Undef): raise E.Bug('undef', 'uninitialised byte bound to an SQL parameter', eng._m(st))
                    v = (kind, tuple(bs))
            if v[0] in ('int', 'real') and isinstance(v[1], Undef): raise E.Bug('undef', 'uninitialised value bound to SQL parameter %d of: %s' % (idx, s_.sql[:80]), eng._m(st))
            s_.binds[idx] = v
            return SQLITE_OK
        return f
    M['sqlite3_bind_int64'] = bind('int'); M['sqlite3_bind_int'] = bind('int32'); M['sqlite3_bind_double'] = bind('double')
    M['sqlite3_bind_null'] = bind('null'); M['sqlite3_bind_text'] = bind('text'); M['sqlite3_bind_blob'] = bind('blob')
    def m_bpi(st, a): raise E.Inconclusive('unsupported', 'named SQL parameters')
    M['sqlite3_bind_parameter_index'] = m_bpi

    def m_step(st, a):
        q, s_ = stmt_of(st, a[0])
        kind = s_.kind
        exe = cfg.get('execute')         # kv / relational back ends hook in here
        if kind == 'read':
            if s_.nrows is None:
                if cfg.get('fail') == 'one' and cfg.get('fail_reads') and q.failed is None and eng.choose(st, 'failread', 2) == 1:
                    # a SELECT / PRAGMA query that fails on its first step (I/O error, busy database): nothing was read, nothing is changed
                    q.failed = ('read', s_.sql); q.log.append(('step', 'read', s_.sql, dict(s_.binds), 'FAILED'))
                    return cfg.get('fail_read_code', SQLITE_BUSY)
                n = None
                if exe: n = exe(st, q, s_)            # fills s_.rows
                if n is None:
                    hook = cfg.get('rows')
                    n = hook(st, s_) if hook else None
                    if n is None: n = eng.choose(st, 'rows', cfg.get('max_rows', 2) + 1)
                s_.nrows = n; q.log.append(('step', 'read', s_.sql, dict(s_.binds), n))
            if s_.pos < s_.nrows:
                s_.pos += 1; s_.cur = {}; return SQLITE_ROW
            return SQLITE_DONE
        if kind == 'txn':
            toks = s_.sql.strip().rstrip(';').split()
            w = toks[0].upper()
            up = [t.upper() for t in toks]
            copy_kv = lambda: {t: {k: dict(r) for k, r in rows.items()} for t, rows in q.tables.items()}
            if w == 'SAVEPOINT' or w == 'RELEASE' or (w == 'ROLLBACK' and 'TO' in up):
                # SQLite savepoints: SAVEPOINT outside a transaction opens one; ROLLBACK TO reverts to the savepoint and KEEPS it (the transaction stays
                # open); RELEASE of the outermost savepoint of a savepoint-opened transaction commits
                name = toks[-1].lower()
                if w == 'SAVEPOINT':
                    if not q.txn:
                        q.txn = 1; q.w_txn = 0; q.began += 1; q.sp_started = True
                        if exe: q.txn_snapshot = copy_kv()
                        if q.rel is not None: q.rel_snapshot = q.rel.snapshot()
                    q.sp_stack.append((name, copy_kv() if exe else None, q.rel.snapshot() if q.rel is not None else None))
                else:
                    idx = [i for i, e in enumerate(q.sp_stack) if e[0] == name]
                    if not idx:
                        q.log.append(('step', 'txn', s_.sql, {}, 'error: no such savepoint')); return SQLITE_ERROR
                    i = idx[-1]
                    if w == 'ROLLBACK':
                        _, kvs, rels = q.sp_stack[i]
                        if kvs is not None: q.tables = {t: {k: dict(r) for k, r in rows.items()} for t, rows in kvs.items()}
                        if rels is not None and q.rel is not None: q.rel.restore(rels)
                        del q.sp_stack[i + 1:]
                    else:
                        del q.sp_stack[i:]
                        if not q.sp_stack and q.sp_started:
                            q.txn = 0; q.w_auto += q.w_txn; q.w_txn = 0; q.committed += 1; q.txn_snapshot = None; q.rel_snapshot = None; q.sp_started = False
                q.log.append(('step', 'txn', s_.sql, {}, 'ok'))
                return SQLITE_DONE
            if w in ('COMMIT', 'END', 'ROLLBACK') and q.txn: q.sp_stack = []; q.sp_started = False
            if w == 'BEGIN':
                if q.txn:
                    q.log.append(('step', 'txn', s_.sql, {}, 'error: nested')); return SQLITE_ERROR
                q.txn = 1; q.w_txn = 0; q.began += 1
                if exe: q.txn_snapshot = {t: {k: dict(r) for k, r in rows.items()} for t, rows in q.tables.items()}
                if q.rel is not None: q.rel_snapshot = q.rel.snapshot()
            elif w in ('COMMIT', 'END'):
                if cfg.get('fail') == 'one' and q.failed is None and cfg.get('fail_commit', True) and eng.choose(st, 'failcommit', 2) == 1:
                    q.failed = ('commit', s_.sql); q.log.append(('step', 'txn', s_.sql, {}, 'FAILED'))
                    return SQLITE_BUSY          # a busy COMMIT leaves the transaction open
                if not q.txn:
                    q.log.append(('step', 'txn', s_.sql, {}, 'error: no txn')); return SQLITE_ERROR
                q.txn = 0; q.w_auto += q.w_txn; q.w_txn = 0; q.committed += 1; q.txn_snapshot = None; q.rel_snapshot = None
            elif w == 'ROLLBACK':
                if not q.txn:
                    q.log.append(('step', 'txn', s_.sql, {}, 'error: no txn')); return SQLITE_ERROR
                q.txn = 0; q.w_txn = 0; q.rolled += 1
                if q.txn_snapshot is not None: q.tables = q.txn_snapshot; q.txn_snapshot = None
                if q.rel is not None and q.rel_snapshot is not None: q.rel.restore(q.rel_snapshot); q.rel_snapshot = None
            else: raise E.Inconclusive('unsupported', 'transaction statement ' + s_.sql)
            q.log.append(('step', 'txn', s_.sql, {}, 'ok'))
            return SQLITE_DONE
        # write / ddl / other
        if cfg.get('fail') == 'one' and q.failed is None and kind in ('write', 'ddl'):
            if eng.choose(st, 'failwrite', 2) == 1:
                q.failed = (kind, s_.sql); q.log.append(('step', kind, s_.sql, dict(s_.binds), 'FAILED'))
                return cfg.get('fail_code', SQLITE_CONSTRAINT)
        if exe and kind == 'write':
            rc = exe(st, q, s_)
            if rc not in (None, SQLITE_DONE):
                q.log.append(('step', kind, s_.sql, dict(s_.binds), 'error %s' % rc)); return rc
        else:
            q.changes = None; q.rowid = None
            if 'row_exists' in cfg and kind == 'write' and not s_.sql.strip().upper().startswith('INSERT'):
                q.changes = 1 if cfg['row_exists'] else 0
        effect = not (q.changes == 0 and kind == 'write')       # a write that matched no row changed nothing
        if effect:
            if q.txn: q.w_txn += 1
            else: q.w_auto += 1
        q.log.append(('step', kind, s_.sql, dict(s_.binds), 'ok'))
        return SQLITE_DONE
    M['sqlite3_step'] = m_step
    def m_exec(st, a):
        # sqlite3_exec(db, sql, callback, arg, errmsg): every statement of the text is prepared and run to completion (results are not delivered: no callback user in this code base)
        text = eng.read_cstr(st, a[1]).decode('latin1')
        q = sq(st)
        for sql in [x.strip() for x in text.split(';') if x.strip()]:
            s_ = Stmt(sql); q.log.append(('prepare', sql))
            hook = cfg.get('on_prepare')
            if hook: hook(st, q, s_)
            if s_.kind in ('write', 'ddl', 'other'):
                if q.txn: q.w_txn += 1
                else: q.w_auto += 1
            q.log.append(('step', s_.kind, sql, {}, 'ok (sqlite3_exec)'))
        return SQLITE_OK
    M['sqlite3_exec'] = m_exec

    def m_reset(st, a):
        q, s_ = stmt_of(st, a[0]); s_.pos = 0; s_.nrows = None; s_.rows = None; return SQLITE_OK
    M['sqlite3_reset'] = m_reset
    def m_clear(st, a):
        q, s_ = stmt_of(st, a[0]); s_.binds = {}; return SQLITE_OK
    M['sqlite3_clear_bindings'] = m_clear
    def m_finalize(st, a):
        q = sq(st)
        if isinstance(a[0], P) and a[0].obj in q.stmts: del q.stmts[a[0].obj]
        return SQLITE_OK
    M['sqlite3_finalize'] = m_finalize

    # ---- result columns.  A column value is ('int', v) | ('real', bits) | ('text', bytes-list) | ('blob', bytes-list) | ('null',)
    def colval(st, s_, col, want):
        if col in s_.cur: return s_.cur[col]
        v = None
        if s_.rows is not None:
            row = s_.rows[s_.pos - 1]
            v = row.get(col)
            if v is None: raise E.Inconclusive('sqlmodel', 'column %d not provided by the table model for: %s' % (col, s_.sql[:100]))
        else:
            hook = cfg.get('column')
            if hook: v = hook(st, s_, col, want)
            if v is None:
                if cfg.get('null', 'never') == 'choose' and eng.choose(st, 'null', 2) == 1: v = ('null',)
                elif want == 'int': v = ('int', st.new_input('col%d' % col, 64, 'env'))
                elif want == 'real': v = ('real', st.new_input('colf%d' % col, 64, 'env'))
                elif want == 'text':
                    g = cfg.get('text'); d = g(st, s_, col) if g else None
                    v = ('text', tuple(d if d is not None else b't%d' % col))
                else:
                    g = cfg.get('blob'); d = g(st, s_, col) if g else None
                    v = ('blob', tuple(d if d is not None else []))
        s_.cur[col] = v
        return v
    def m_coltype(st, a):
        q, s_ = stmt_of(st, a[0]); col = eng.concretize(st, a[1], 'column index')
        want = (cfg.get('coltype') or (lambda st, s_, col: None))(st, s_, col) or 'int'
        v = colval(st, s_, col, want)
        return {'int': T_INT, 'real': T_FLOAT, 'text': T_TEXT, 'blob': T_BLOB, 'null': T_NULL}[v[0]]
    M['sqlite3_column_type'] = m_coltype
    def m_colint(bits):
        def f(st, a):
            q, s_ = stmt_of(st, a[0]); col = eng.concretize(st, a[1], 'column index')
            v = colval(st, s_, col, 'int')
            if v[0] == 'null': return 0
            if v[0] == 'int':
                x = v[1]
                return (x & ((1 << bits) - 1)) if x.__class__ is int else E.simp(z3.Extract(bits - 1, 0, E.bv(x, 64)))
            if v[0] == 'real':
                return eng.fptoint(st, 'fptosi', v[1], 64, bits) if not isinstance(v[1], Undef) else Undef(bits)
            raise E.Inconclusive('sqlmodel', 'integer read of a %s column' % v[0])
        return f
    M['sqlite3_column_int64'] = m_colint(64); M['sqlite3_column_int'] = m_colint(32)
    def m_coldouble(st, a):
        q, s_ = stmt_of(st, a[0]); col = eng.concretize(st, a[1], 'column index')
        v = colval(st, s_, col, 'real')
        if v[0] == 'null': return 0
        if v[0] == 'real': return v[1]
        if v[0] == 'int': return eng.cast('sitofp', v[1], E.Int(64), E.Flt('double'))
        raise E.Inconclusive('sqlmodel', 'double read of a %s column' % v[0])
    M['sqlite3_column_double'] = m_coldouble
    def m_coltext(kind):
        def f(st, a):
            q, s_ = stmt_of(st, a[0]); col = eng.concretize(st, a[1], 'column index')
            v = colval(st, s_, col, kind)
            if v[0] == 'null': return NULL
            if v[0] in ('text', 'blob'):
                key = ('buf', col)
                if key not in s_.cur: s_.cur[key] = text_buf(st, v[1])
                return s_.cur[key]
            raise E.Inconclusive('sqlmodel', '%s read of a %s column' % (kind, v[0]))
        return f
    M['sqlite3_column_text'] = m_coltext('text'); M['sqlite3_column_blob'] = m_coltext('blob')
    def m_colbytes(st, a):
        q, s_ = stmt_of(st, a[0]); col = eng.concretize(st, a[1], 'column index')
        v = s_.cur.get(col) or colval(st, s_, col, 'blob')
        return len(v[1]) if v[0] in ('text', 'blob') else 0
    M['sqlite3_column_bytes'] = m_colbytes
    def m_colcount(st, a):
        q, s_ = stmt_of(st, a[0])
        g = cfg.get('column_count')
        n = g(st, s_) if g else None
        if n is None: raise E.Inconclusive('sqlmodel', 'sqlite3_column_count without a table model: ' + s_.sql[:80])
        return n
    M['sqlite3_column_count'] = m_colcount

    def m_changes(st, a):
        q = sq(st)
        if q.changes is not None: return q.changes
        return st.new_input('changes', 32, 'env')
    M['sqlite3_changes'] = m_changes
    def m_rowid(st, a):
        q = sq(st)
        if q.rowid is not None: return q.rowid
        return st.new_input('last_insert_rowid', 64, 'env')
    M['sqlite3_last_insert_rowid'] = m_rowid
    M['sqlite3_errmsg'] = lambda st, a: eng.const_str(st, 'sqlite error', 'errmsg')
    M['sqlite3_errstr'] = lambda st, a: eng.const_str(st, 'sqlite error', 'errstr')
    M['sqlite3_extended_errcode'] = lambda st, a: SQLITE_ERROR
    M['sqlite3_errcode'] = lambda st, a: SQLITE_ERROR
    def m_sql(st, a):
        q, s_ = stmt_of(st, a[0]); return eng.const_str(st, s_.sql, 'sql')
    M['sqlite3_sql'] = m_sql
    def m_esql(st, a):
        q, s_ = stmt_of(st, a[0])
        p = st.alloc(len(s_.sql) + 1, 'heap', 'expanded_sql'); o = st.mem[p.obj]
        for i, ch in enumerate(s_.sql.encode('latin1') + b'\0'): o.cells[i] = (1, ch)
        return p
    M['sqlite3_expanded_sql'] = m_esql
    def m_free(st, a):
        p = a[0]
        if isinstance(p, P) and p.obj:
            o = st.obj_w(p.obj); o.alive = False
    M['sqlite3_free'] = m_free
    M['sqlite3_get_autocommit'] = lambda st, a: 0 if sq(st).txn else 1

    # ---- iostream pieces reached by error-message formatting (formatting is not the subject: output is dropped)
    def m_oss_ctor(st, a):
        this = a[0]
        o = eng.obj_of(st, this, 'ostringstream ctor', write=True)
        base = E.to_signed(this.off, 64)
        size = 376
        eng.kill_overlaps(o, base, size)
        for i in range(0, size, 8): o.cells[base + i] = (8, 0)
        o.cells[base] = (8, eng.dummy_vptr(st))        # vptr: vbase offset (vptr[-3]) reads as 0
        # the stringbuf's std::string member (offset 8 + 72): valid empty string
        so = base + 80
        o.cells[so] = (8, P(this.obj, so + 16)); o.cells[so + 8] = (8, 0); eng.kill_overlaps(o, so + 16, 1); o.cells[so + 16] = (1, 0)
        # basic_ios::_M_fill_init = true (the virtual base is placed at offset 0 by the dummy vtable): std::setfill/fill() then never asks the
        # (absent) ctype facet to widen a character
        eng.kill_overlaps(o, base + 224, 2); o.cells[base + 224] = (1, 0x20); o.cells[base + 225] = (1, 1)
    M['_ZNSt7__cxx1119basic_ostringstreamIcSt11char_traitsIcESaIcEEC1Ev'] = m_oss_ctor
    M['_ZNSt7__cxx1119basic_ostringstreamIcSt11char_traitsIcESaIcEEC1ESt13_Ios_Openmode'] = m_oss_ctor
    M['_ZNSt7__cxx1118basic_stringstreamIcSt11char_traitsIcESaIcEEC1Ev'] = m_oss_ctor
    for nme in ('_ZNSt7__cxx1119basic_ostringstreamIcSt11char_traitsIcESaIcEED1Ev', '_ZNSt7__cxx1118basic_stringstreamIcSt11char_traitsIcESaIcEED1Ev',
                '_ZNSt6localeD1Ev', '_ZNSt6localeC1Ev', '_ZNSt8ios_baseD2Ev', '_ZNSt8ios_baseC2Ev', '_ZNSt9basic_iosIcSt11char_traitsIcEE4initEPSt15basic_streambufIcS1_E',
                '_ZNSt9basic_iosIcSt11char_traitsIcEE5clearESt12_Ios_Iostate'):
        M[nme] = lambda st, a: None
    for nme in ('_ZNSolsEi', '_ZNSolsEl', '_ZNSolsEm', '_ZNSolsEj', '_ZNSolsEd', '_ZNSolsEx', '_ZNSolsEy', '_ZNSolsEb', '_ZNSo9_M_insertIlEERSoT_', '_ZNSo9_M_insertImEERSoT_',
                '_ZNSo9_M_insertIdEERSoT_', '_ZNSo9_M_insertIbEERSoT_', '_ZNSo9_M_insertIxEERSoT_', '_ZNSo9_M_insertIyEERSoT_',
                '_ZSt16__ostream_insertIcSt11char_traitsIcEERSt13basic_ostreamIT_T0_ES6_PKS3_l', '_ZNSo3putEc', '_ZNSo5flushEv',
                '_ZStlsISt11char_traitsIcEERSt13basic_ostreamIcT_ES5_PKc', '_ZStlsIcSt11char_traitsIcESaIcEERSt13basic_ostreamIT_T0_ES7_RKNSt7__cxx1112basic_stringIS4_S5_T1_EE'):
        M[nme] = lambda st, a: a[0]


# ---------------------------------------------------------------------------------------------------------------
# key/value back end: meaning for the single-table statement shapes used by the 2.x table classes and the 1.x
# engine_storage.  A table is a map primary-key -> {column: value}; column lists, VALUES tuples (also multi-row), SET lists,
# WHERE conjunctions (col = ? | col IS [NOT] NULL) and the order of the '?' placeholders all come from the real SQL text.
RE_INSERT = re.compile(r'^\s*(INSERT(?:\s+OR\s+REPLACE)?|REPLACE)\s+INTO\s+([\w.]+)\s*\(([^)]*)\)\s*VALUES\s*(.*?)\s*;?\s*$', re.I | re.S)
RE_SELECT = re.compile(r'^\s*SELECT\s+(.*?)\s+FROM\s+([\w.]+)(?:\s+WHERE\s+(.*?))?\s*;?\s*$', re.I | re.S)
RE_UPDATE = re.compile(r'^\s*UPDATE\s+([\w.]+)\s+SET\s+(.*?)\s*WHERE\s+(.*?)\s*;?\s*$', re.I | re.S)      # the real 2.20.3+ statement has '?WHERE' without a space
RE_DELETE = re.compile(r'^\s*DELETE\s+FROM\s+([\w.]+)(?:\s+WHERE\s+(.*?))?\s*;?\s*$', re.I | re.S)

def parse_where(w):
    out = []
    if not w: return out
    for part in re.split(r'\s+AND\s+', w.strip(), flags=re.I):
        m = re.match(r'^(\w+)\s*=\s*\?$', part.strip())
        if m: out.append((m.group(1), 'eq')); continue
        m = re.match(r'^(\w+)\s+IS\s+NOT\s+NULL$', part.strip(), re.I)
        if m: out.append((m.group(1), 'notnull')); continue
        m = re.match(r'^(\w+)\s+IS\s+NULL$', part.strip(), re.I)
        if m: out.append((m.group(1), 'null')); continue
        return None
    return out

def install_kv(eng, cfg=None):
    """cfg extras: kv_strict (unknown statement shape => Inconclusive instead of abstract answers), maintained: {table: [columns]} the
    database itself maintains (havocked on every write), pk: {table: (cols...)} primary keys (default ('id',)), first_id: {table: int}"""
    cfg = dict(cfg or {})
    def tname(t): return t.split('.')[-1]
    def pk_of(table): return tuple(cfg.get('pk', {}).get(tname(table), ('id',)))
    def conc(st, v, what):
        if v[0] != 'int': raise E.Inconclusive('sqlmodel', 'non-integer key in ' + what)
        k = v[1]
        if k.__class__ is not int: k = eng.concretize(st, k, 'row id used as key')
        return E.to_signed(k, 64)
    def havoc(st, table, row):
        # columns the database maintains itself (triggers): arbitrary value in a sane range [0, 2^32]
        for c in cfg.get('maintained', {}).get(tname(table), []):
            v = st.new_input('db_maintained_' + c, 64, 'env')
            st.var_ranges = dict(st.var_ranges); st.var_ranges[v.get_id()] = (0, 1 << 32)
            st.pc.append(z3.ULE(v, 1 << 32))
            row[c] = ('int', v)
    def take(st, s_, sql, n):
        """the n-th bound parameter (1-based)"""
        if n not in s_.binds: raise E.Bug('assert', 'SQL parameter %d of "%s" was never bound' % (n, sql[:60]), eng._m(st))
        return s_.binds[n]
    def matches(st, row, conds, vals, what):
        for (col, op), v in zip(conds, vals):
            cell = row.get(col)
            if cell is None: raise E.Inconclusive('sqlmodel', 'column %s not present in the modelled row (%s)' % (col, what))
            if op == 'notnull':
                if cell[0] == 'null': return False
            elif op == 'null':
                if cell[0] != 'null': return False
            else:
                if v[0] == 'null' or cell[0] == 'null': return False
                if v[0] != cell[0]: raise E.Inconclusive('sqlmodel', 'comparison of %s with %s in %s' % (v[0], cell[0], what))
                if v[0] == 'int':
                    a, b = v[1], cell[1]
                    if a.__class__ is int and b.__class__ is int:
                        if E.mask(a, 64) != E.mask(b, 64): return False
                    elif not eng.decide(st, E.bv(a, 64) == E.bv(b, 64)): return False
                else:
                    if len(v[1]) != len(cell[1]): return False
                    for x, y in zip(v[1], cell[1]):
                        if x.__class__ is int and y.__class__ is int:
                            if x != y: return False
                        elif not eng.decide(st, E.bv(x, 8) == E.bv(y, 8)): return False
        return True
    def execute(st, q, s_):
        sql = s_.sql
        m = RE_INSERT.match(sql)
        if m and s_.kind == 'write':
            table = tname(m.group(2)); cols = [c.strip() for c in m.group(3).split(',')]
            tuples = re.findall(r'\(([^()]*)\)', m.group(4))
            replace = 'REPLACE' in m.group(1).upper()
            t = q.tables.setdefault(table, {}); pk = pk_of(table)
            bi = 0; n = 0
            for tup in tuples:
                vals = [v.strip() for v in tup.split(',')]
                if len(cols) != len(vals): return SQLITE_ERROR
                row = {}
                for c, v in zip(cols, vals):
                    if v == '?': bi += 1; row[c] = take(st, s_, sql, bi)
                    elif re.match(r'^-?\d+$', v): row[c] = ('int', int(v) & ((1 << 64) - 1))
                    elif v.upper() == 'NULL': row[c] = ('null',)
                    else: raise E.Inconclusive('sqlmodel', 'unsupported VALUES expression %r' % v)
                if pk == ('id',) and ('id' not in row or row['id'][0] == 'null'):
                    rid = q.nextid.get(table, cfg.get('first_id', {}).get(table, 1)); q.nextid[table] = rid + 1
                    row['id'] = ('int', rid & ((1 << 64) - 1))
                key = tuple(conc(st, row[c], sql[:40]) for c in pk)
                if key in t and not replace: return SQLITE_CONSTRAINT
                havoc(st, table, row); t[key] = row; n += 1
                if pk == ('id',): q.rowid = key[0] & ((1 << 64) - 1)
            if len(s_.binds) != bi: raise E.Bug('assert', '%d parameters bound but the statement has %d placeholders: %s' % (len(s_.binds), bi, sql[:60]), eng._m(st))
            q.changes = n
            return SQLITE_DONE
        m = RE_UPDATE.match(sql)
        if m and s_.kind == 'write':
            table, sets, where = tname(m.group(1)), m.group(2), parse_where(m.group(3))
            if where is None: raise E.Inconclusive('sqlmodel', 'unsupported WHERE clause: ' + sql[:100])
            cols = []; consts = []
            for a in sets.split(','):
                mm = re.match(r'^\s*(\w+)\s*=\s*\?\s*$', a)
                if mm: cols.append(mm.group(1)); continue
                mm = re.match(r'^\s*(\w+)\s*=\s*(-?\d+|NULL)\s*$', a, re.I)
                if not mm: raise E.Inconclusive('sqlmodel', 'unsupported SET expression %r' % a)
                consts.append((mm.group(1), ('null',) if mm.group(2).upper() == 'NULL' else ('int', int(mm.group(2)) & ((1 << 64) - 1))))
            nq = len(cols) + sum(1 for c, op in where if op == 'eq')
            if len(s_.binds) != nq: raise E.Bug('assert', '%d parameters bound but the statement has %d placeholders: %s' % (len(s_.binds), nq, sql[:60]), eng._m(st))
            wv = []; bi = len(cols)
            for c, op in where:
                if op == 'eq': bi += 1; wv.append(take(st, s_, sql, bi))
                else: wv.append(None)
            t = q.tables.setdefault(table, {}); n = 0
            for key in list(t):
                if matches(st, t[key], where, wv, sql[:40]):
                    row = dict(t[key])
                    for i, c in enumerate(cols): row[c] = s_.binds[i + 1]
                    for c, v in consts: row[c] = v
                    havoc(st, table, row); t[key] = row; n += 1
            q.changes = n
            return SQLITE_DONE
        m = RE_DELETE.match(sql)
        if m and s_.kind == 'write' and tname(m.group(1)) in cfg.get('unmodelled_tables', ('PlaylistEntity', 'PreparelistEntity')):
            # tables the key/value world does not hold (they are empty here): a DELETE on them removes nothing
            q.changes = 0
            return SQLITE_DONE
        if m and s_.kind == 'write':
            table, where = tname(m.group(1)), parse_where(m.group(2))
            if where is None: raise E.Inconclusive('sqlmodel', 'unsupported WHERE clause: ' + sql[:100])
            wv = []; bi = 0
            for c, op in where:
                if op == 'eq': bi += 1; wv.append(take(st, s_, sql, bi))
                else: wv.append(None)
            t = q.tables.setdefault(table, {}); n = 0
            for key in list(t):
                if matches(st, t[key], where, wv, sql[:40]): del t[key]; n += 1
            q.changes = n
            return SQLITE_DONE
        m = RE_SELECT.match(sql)
        if m and s_.kind == 'read' and ' JOIN ' not in sql.upper() and '(' not in m.group(1).replace('COUNT(*)', ''):
            cols, table, where = [c.strip() for c in m.group(1).split(',')], tname(m.group(2)), parse_where(m.group(3))
            if where is None: raise E.Inconclusive('sqlmodel', 'unsupported WHERE clause: ' + sql[:100])
            wv = []; bi = 0
            for c, op in where:
                if op == 'eq': bi += 1; wv.append(take(st, s_, sql, bi))
                else: wv.append(None)
            t = q.tables.setdefault(table, {})
            keys = [k for k in sorted(t) if matches(st, t[k], where, wv, sql[:40])]
            if len(cols) == 1 and cols[0].upper().replace(' ', '') == 'COUNT(*)':
                s_.rows = [{0: ('int', len(keys))}]; return 1
            rows = []
            for k in keys:
                r = {}
                for i, c in enumerate(cols):
                    if c not in t[k]:
                        if c in cfg.get('maintained', {}).get(table, []) or c in cfg.get('defaults', {}).get(table, {}):
                            d = cfg.get('defaults', {}).get(table, {}).get(c)
                            t[k][c] = d if d is not None else ('int', st.new_input('db_default_' + c, 64, 'env'))
                        else: raise E.Inconclusive('sqlmodel', 'column %s was never written for this row (%s)' % (c, table))
                    r[i] = t[k][c]
                rows.append(r)
            s_.rows = rows
            return len(rows)
        if cfg.get('kv_strict', True) and s_.kind in ('read', 'write'):
            raise E.Inconclusive('sqlmodel', 'statement shape not covered by the key/value model: ' + sql[:120])
        return None
    cfg['execute'] = execute
    install(eng, cfg)
