#!/usr/bin/env python3
"""Regenerates MANIFEST.json from the table below (kept in one place so it stays valid)."""
import json, os
V = os.path.dirname(os.path.abspath(__file__))
CHECKS = {}
def chk(pid, cat, text, note, technique, design, engine='lsx'):
    CHECKS[pid] = {
        'property_id': pid,
        'quick_cmd': 'VERIF_TIER=quick python3-vt checks/%s.py' % pid.lower(),
        'thorough_cmd': 'VERIF_TIER=thorough python3-vt checks/%s.py' % pid.lower(),
        'evidence_file': 'evidence/%s.json' % pid,
        'replay_cmd_template': 'python3-vt checks/replay.py {path}',
        'engine': engine,
        'level_claimed': {'category': cat, 'text': text, 'design_ref': design},
        'level_note': note, 'technique': technique}
NA = []
def na(pid, reason): NA.append({'property_id': pid, 'reason': reason})

chk('C05', 'model_checking',
    'Bounded symbolic execution of the real decoders (clang-14 IR of the 11 from_blob/decode functions, UBSan checks made explicit in the IR) over '
    'every payload of each length in the stated range with all bytes symbolic; every branch, memory access and signed operation is decided by z3; '
    'counterexamples are replayed natively under ASan/UBSan before being reported. Holds for all inputs inside the bound, says nothing beyond it.',
    'Trusted: clang lowering, the lsx executor and its runtime models (operator new/delete, __cxa_*, std exception ctors), z3; identity zlib framing '
    'for the codecs. libz itself is outside.',
    'bounded symbolic execution of LLVM IR (own executor, z3) + native ASan/UBSan replay', 'DESIGN.md §3 C05')

chk('C01', 'model_checking',
    'Both schema generations (2.x: snapshot_to_row, convert::read/write, the five codecs, track_table; 1.x: engine_track_impl, engine_storage, performance_data_format): symbolic execution of the real create_track / update / snapshot path '
    'through sqlite_modern_cpp over the key/value sqlite3 model; the harness body uses only the public djinterop::database / track API and is shared. '
    'One group of snapshot fields is symbolic per run (numeric sentinel fields | cue and loop slots | strings, integers, key, time stamp, beat grid). Asserted: the read-back snapshot equals the statement\'s '
    'normalisation of the input (8 slots, whole seconds, rating clamp, 0 / -1 sentinels) and is a fixed point of write+read; a rejected write is an exception.',
    'Trusted: clang lowering, lsx, key/value sqlite3 model (C18 is the claim that rows are stored faithfully), identity zlib framing, the normalisation oracle in harness/h_track_common.h (generation-specific lines marked), z3. '
    'Waveform content is only checked for the fixed point; 1.x: the BPM derived from a symbolic beat grid is outside (floating-point quotient), covered with concrete grids. Not replayed against a real SQLite.',
    'bounded symbolic execution of LLVM IR (lsx, z3) over a key/value sqlite3 model', 'DESIGN.md §3 C01')
chk('C02', 'model_checking',
    'Bounded symbolic execution: for symbolic logical values of each of the 11 blob kinds (all field values symbolic; entry counts and label lengths from a stated grid) '
    'the real encoder output is compared byte for byte with an independent reference encoder of the documented Engine layout, and the real decoder is run on the reference '
    'encoder\'s bytes and compared field by field (doubles by bit pattern). Encoder and decoder are never compared with each other, so drifting together is caught.',
    'Trusted: the reference layout in harness/h_codec_v1.cpp / h_codec_v2.cpp (my reading of the documented format), clang lowering, lsx, z3. zlib framing: identity model for the codecs; '
    'the real wrappers are checked against a contract stub of libz in the C05 check (h_zlib). libz\'s bit stream is outside.',
    'bounded symbolic execution of LLVM IR (lsx, z3) against a reference byte layout', 'DESIGN.md §3 C02')
chk('C03', 'model_checking',
    'Bounded symbolic execution of real encode -> real decode for the 11 codecs: every field value symbolic (doubles by bit pattern, full-width integers, symbolic label bytes), '
    'counts/label lengths from a stated grid that includes the rejection side (labels of 255/256/300 bytes, 9 cue slots, empty labels). Assert: encode throws, or decode returns the same value; '
    'only the reserved -1 offsets may read back absent.',
    'Trusted: clang lowering, lsx + runtime models, z3; identity zlib framing. Sizes outside the grid are outside the claim.',
    'bounded symbolic execution of LLVM IR (lsx, z3) + native ASan/UBSan replay', 'DESIGN.md §3 C03')
chk('C04', 'model_checking',
    'Bounded symbolic execution over EVERY byte string of each length in the bound (all bytes symbolic - stronger than blobs from an encoder): whenever the real 2.x from_blob accepts it, '
    'to_blob of the result reproduces the payload byte for byte (the one boolean byte may be normalised to 0/1). Setter half: every per-field setter of djinterop::track that rewrites a blob (set_loop_at, set_hot_cue_at, set_main_cue, set_average_loudness, set_key, set_sample_rate, set_sample_count, plus set_title / set_bpm as controls) runs over a 2.x track whose stored blobs are foreign (10 loops / 10 hot cues with symbolic fields and labels, two grids, trailing bytes): blobs it does not own stay unchanged field for field, inside its own blob only its field differs (entry count, other entries, trailing data kept).',
    'Trusted: clang lowering, lsx + runtime models, z3; identity zlib framing. Payloads longer than the bound are outside; the setter half runs over the key/value sqlite3 model (as C06); whole-list setters replace their list by definition.',
    'bounded symbolic execution of LLVM IR (lsx, z3) + native replay', 'DESIGN.md §3 C04')
chk('C06', 'model_checking',
    'Both schema generations, one inductive step per setter (25 setters incl. per-slot cue/loop setters at slots 0 and 7; whole-list setters over a longer stored list): from a track created from an arbitrary snapshot plus a second track, '
    'run the real setter with a symbolic value, then the real getter and snapshot(); assert getter == normalised value == snapshot field, every other field of this track and the whole other track unchanged '
    '(set_relative_path: derived file name and extension follow). Because the pre-state is arbitrary, any finite sequence of setters is covered by induction.',
    'Trusted: as C01. set_waveform is outside; a setter may reject its value with an exception (then nothing is asserted about the getter). Not replayed against a real SQLite.',
    'bounded symbolic execution of LLVM IR (lsx, z3) over a key/value sqlite3 model, one inductive step per setter', 'DESIGN.md §3 C06')
chk('C15', 'model_checking',
    'Executor monitors (out-of-bounds / null / freed access, UBSan checks and libstdc++ precondition assertions made explicit in the IR, branch on an uninitialised value, unreachable, terminate, step cap) over every public '
    'schema-2.x operation (91) with slot indices -1..9, cue/loop lists of 0..12 entries, arbitrary entity ids, a database answering 0 or 1 rows (handles to removed tracks/crates) and blob columns holding arbitrary or '
    'all-zero structs; plus the 1.x cue/loop encoders with 0..12 slots. Every path must end in a return or a std::exception.',
    'Trusted: clang lowering with -fsanitize-trap and -D_GLIBCXX_ASSERTIONS instrumentation, lsx monitors, abstract sqlite3 model (over-approximates reachable states; chains well formed; one Information row), z3. '
    'Schema 1.x glue, NaN/inf/huge doubles to casting setters and UB inside SQLite/libz are outside. Not replayed against a real SQLite.',
    'bounded symbolic execution of LLVM IR (lsx, z3) with UB monitors over an abstract sqlite3 model', 'DESIGN.md §3 C15')
chk('C13', 'model_checking',
    'Symbolic execution of the real detect_schema (plain and "music"-prefixed), detect_is_database2, load_database and v1::engine_storage(directory) over an abstract sqlite3 model: '
    'the stored (major, minor, patch) are three symbolic int32, so z3 decides the decision table for every triple, not a box; Information row counts, table_info rows (1.18.0 variant marker) '
    'and every presence combination of dir / m.db / Database2/m.db are forked over. Asserted: supported triple -> its schema, everything else -> unsupported_database, '
    'no/both layouts -> database_not_found, load_database reports the stored version and opens exactly the files of the detected layout.',
    'Trusted: clang lowering (one clang-compat rewrite of the v1 engine_storage delegating constructor), lsx, the abstract sqlite3 model and stat() model, z3. Counterexamples are solver models over the model\'s '
    'answers; they are not replayed against a real SQLite (stated). One listed known finding (3.0.0 accepted).',
    'symbolic execution of LLVM IR (lsx, z3) over an abstract sqlite3/file-system model', 'DESIGN.md §3 C13')
chk('C14', 'model_checking',
    'Symbolic fault injection: every public mutating operation of the schema-2.x implementation (41 operations: 27 track setters incl. update, 9 crate operations, 5 database operations) '
    'is executed from the public wrapper down through sqlite_transaction and sqlite_modern_cpp to an abstract sqlite3 model with transaction state; exactly one statement fails - a write, a COMMIT or (separate runs) a SELECT / PRAGMA query on its first step - '
    'at a position the executor forks over on every path (all k literally). Oracle at the end of the call: the failure was reported by an exception, no transaction is open, no write took effect.',
    'Trusted: clang lowering, lsx, lsx/models_sqlite.py (statement classification from the real SQL text; SQLite statement-level atomicity assumed; busy COMMIT leaves the transaction open), z3. '
    'Schema 1.x operations: see DESIGN.md (covered only if listed in the evidence). Four listed known findings (2.x two-statement setters). Counterexamples are not replayed against a real SQLite.',
    'symbolic execution of LLVM IR (lsx, z3) with solver-chosen fault position over an abstract sqlite3 model', 'DESIGN.md §3 C14')
chk('C16', 'model_checking',
    'Symbolic execution of every public observing operation of both generations (2.x: 50 operations of track, crate and database; 1.x: the same op table over engine_*_impl) over an abstract sqlite3 model whose SELECTs answer arbitrary rows '
    '(exactly one row, and 0..1 rows; a third run answers every text column with arbitrary non-NUL bytes, so that two stored text columns need not agree): on no path may any statement other than a read be prepared. Statement text is taken from the concrete bytes passed to sqlite3_prepare_v2, so dynamically built SQL is covered.',
    'Also: loading itself (load_database) and database_exists() over the abstract sqlite3 + stat() model of C13 for every stored version triple and file-system state, to the point where the connection is closed again, and verify() over the catalog model of C17: nothing but reads and ATTACH / DETACH may be prepared or passed to sqlite3_exec; a PRAGMA counts as a read only if it is one of the documented pure queries. Trusted: clang lowering, lsx, lsx/models_sqlite.py, checks/catalog.py, z3. Effects inside SQLite of a read statement are outside.',
    'symbolic execution of LLVM IR (lsx, z3) over an abstract sqlite3 model', 'DESIGN.md §3 C16')
chk('C18', 'model_checking',
    'Symbolic execution of the real track_table::add/get/update/remove/exists and all ~45 per-column getter/setter pairs together with the real sqlite_modern_cpp binders over a key/value model of the sqlite3 C API: '
    'all 48 row fields symbolic (strings as symbolic bytes, so two swapped same-typed columns differ for every value), one run per schema column-list range and optional-presence pattern. '
    'Asserted: get(add(r)) == r, get after update(r) == r (minus id and DB-maintained columns), getter == field, setter changes its column only, absent ids raise. '
    'playlist_table (add / get / exists / update in place or moved / remove), playlist_entity_table (add_back with and without throw_if_duplicate, get, get_for_list, remove, clear; two database uuids) and information_table '
    'run over the relational sqlite3 model with every caller-owned field symbolic; the written row must read back, other rows keep their caller-owned columns, update of a nonexistent row must throw.',
    'Trusted: clang lowering, lsx, lsx/models_sqlite.py (column lists and ? positions parsed from the real SQL text; a bound value is stored and returned unchanged; type affinity ignored), z3 and the integer encoding. '
    'Playlist tables: lsx/models_rel.py (validated against the real SQLite; sampled paths and every counterexample replayed natively through the public table API); the text form of the edit time (date.h through iostreams) is replaced by an '
    'injective text code of the whole seconds (contract: parse_ft(to_ft(t)) == floor_seconds(t)). track_table counterexamples are not replayed against a real SQLite (stated).',
    'symbolic execution of LLVM IR (lsx, z3) over a key/value sqlite3 model (track_table) and a relational sqlite3 model (playlist tables, native replay)', 'DESIGN.md §3 C18')
chk('C19', 'other',
    'SMT validity over the whole stated domain (sample count in [0, 2^62], every double rate in [0, 2^31]): the real functions are executed symbolically '
    '(loop-free, 3 paths) and each obligation of harness/h_wave.cpp is shown unsatisfiable by z3 - natively in BV/FP where that finishes (floor lemma, exactness), '
    'otherwise in an integer encoding that keeps mod 2^64 explicitly, re-checked by cvc5. No unrolling or size bound is involved; it is a solver verdict, not a proof-assistant proof.',
    'Trusted: clang lowering, lsx executor, lsx/bv2int.py, z3, cvc5. In the integer encoding FP operations are uninterpreted functions of their operands (sound for unsat). '
    'Rates outside [0, 2^31], NaN and infinities are outside the statement (the cast is UB there).',
    'symbolic execution of LLVM IR + SMT (z3 BV/FP and integer encoding with explicit mod 2^64; cvc5 cross-check)', 'DESIGN.md §2.4, §3 C19')
chk('C20', 'model_checking',
    'Bounded symbolic execution of the real normalize_beatgrid on the exact-arithmetic domain (integer-valued offsets, integer samples per beat): grids of 0..4 markers, '
    'symbolic sample count / first offset / first index, per-segment (step, tempo) from a stated menu. Structural clauses (which markers survive, invalid_argument iff < 2, first index -4, '
    'interior markers untouched) and arithmetic clauses (last marker in [N, N + beat), first/last segment tempo kept) are each decided by z3 on every path; idempotence follows from them on this domain.',
    'Trusted: clang lowering, lsx, the exact integer encoding of FP in lsx/bv2int.py (integrality and magnitude < 2^53 established by interval arithmetic; ceil(RNE(a/b)) = ceil(a/b) lemma), z3. '
    'Non-integer offsets/tempi are outside (the rounding clauses do not hold for all doubles). One listed known finding (second surviving marker at index <= -4).',
    'bounded symbolic execution of LLVM IR (lsx) + z3 linear integer arithmetic via an exact FP encoding', 'DESIGN.md §3 C20')
for pid, why in (
    ('C12', 'a finite comparison of DDL emitted by create() with reference dumps modulo SQLite\'s own parser; no symbolic variable, needs the real SQLite to normalise both sides (DESIGN.md §4)'),):
    na(pid, why)
chk('C10', 'model_checking',
    'Partial: the glue half of the statement, both generations.  A history of crate / track operations (concrete prefix + 1-2 operations with symbolic kind and operands: membership add / remove / clear, remove track / crate, '
    'create track / crate / sub-crate, retitle / rate a track, rename a crate) runs over the relational sqlite3 model; the whole observation is made through the handles the history holds, every handle and the database '
    'object are released (sqlite3_close rolls an open transaction back, committed rows stay), the library objects are built again over the store and the observation is repeated through fresh handles obtained by id. '
    'The solver decides on every path that both observations are equal: nothing observable lives only in a handle or implementation object, no write is left in an open transaction. Sampled passing paths and every '
    'counterexample are replayed natively on a library created ON DISK, closed and loaded again with load_database (which must report the created schema version). '
    'Peek runs query every live handle after every operation (caches filled at every point of the history). Create-or-load half: the real create_or_load_database / load_database over the abstract sqlite3 + stat() model of C13 '
    '(every file-system state, every int32 version triple, symbolic requested schema) with create_database recorded: a library is created exactly when none exists, an unreadable / unsupported one is never created over, a loaded one reports its stored version.',
    'NOT covered (stated): durability of a COMMIT in SQLite\'s pager / journal, which attached file of 1.x a table lives in, what create_database writes (C11 / C17), create-or-load on a directory holding both layouts, the loader after detection (runs only in the native '
    'replays of sampled paths), closing at inner prefixes, fields beyond title / rating. Trusted: as C07/C08 (lsx/models_rel.py validated against the real SQLite), one store per run stands for the files.',
    'bounded symbolic execution of LLVM IR (lsx, z3) over a relational sqlite3 model with close / reopen + native replay on a real on-disk library', 'DESIGN.md §3 C10')
chk('C07', 'model_checking',
    'Both generations (2.x: database_impl / crate_impl / playlist_table; 1.x: engine_database_impl / engine_crate_impl incl. the three redundant encodings and, from 1.9.1, the List views with INSTEAD OF triggers): symbolic execution '
    'through sqlite_modern_cpp over a relational sqlite3 model whose tables, views, UNIQUE constraints and triggers are parsed on every run from the DDL in '
    "/repo's schema creator. History = concrete prefix (forest shapes incl. removals and moves) + 1-3 operations with symbolic kind, operands and names (create root/sub crate [after], rename, re-parent, remove). After every operation "
    'crates(), root_crates(), parent(), name(), children(), descendants(), crate_by_id, lookups by parent and name and is_valid() of every handle are compared with a reference forest; invalid names, cycles, removed operands and duplicate '
    'sibling names must be rejected without effect, legal operations must succeed.',
    'Trusted: clang lowering, lsx, lsx/models_rel.py (SQL subset interpreter; validated on every run against the real SQLite: random statement sequences + native replay of sampled paths and of every counterexample through the library built '
    'from the working tree), the reference forest in harness/h_crates.h (1.x: no sibling order, duplicate sibling names legal, create_*_after ignores its position), z3. Histories longer than the bound are outside. '
    'One listed known finding (1.x hands a removed crate\'s id out again).',
    'bounded symbolic execution of LLVM IR (lsx, z3) over a relational sqlite3 model parsed from the DDL + native replay against the real SQLite', 'DESIGN.md §3 C07')
chk('C09', 'model_checking',
    'Schema 2.x: the same runs as C07 judged by the order assertions (root_crates() / children() sequences: a crate created after a sibling is immediately after it, a created or moved crate appears exactly once among its new siblings, '
    'no operation loses, duplicates or reorders the others), plus the membership runs of C08 judged by the entry-order assertion (crate.tracks() lists entries in the order added). The successor-pointer columns and the '
    'splice triggers are executed by the relational model from the DDL text in /repo.',
    'Trusted: as C07. The raw playlist_entity_table API (rows added with a caller-supplied successor) is outside: only the public crate API drives the entity chain.',
    'bounded symbolic execution of LLVM IR (lsx, z3) over a relational sqlite3 model parsed from the DDL + native replay against the real SQLite', 'DESIGN.md §3 C09')
chk('C08', 'model_checking',
    'Both generations (2.x: crate_impl / playlist_entity_table / track_table / database_impl; 1.x: engine_crate_impl / engine_database_impl / engine_track_impl::containing_crates): symbolic execution over the relational sqlite3 model. History = concrete prefix that makes track ids, crate ids and membership-row ids diverge '
    '+ 1-3 operations with symbolic kind and operands (add, remove, clear, remove_track, remove_crate, create track / crate / sub-crate, also on removed operands). After every operation crate.tracks() of every crate is compared with the '
    'reference relation (no duplicates, no removed tracks, other pairs untouched); containing_crates() is compared where the generation implements it.',
    'Trusted: as C07 (reference relation in harness/h_members.h). Tracks of other databases in a playlist are outside. Two listed known findings (1.x reuses the id of a removed crate / track).',
    'bounded symbolic execution of LLVM IR (lsx, z3) over a relational sqlite3 model parsed from the DDL + native replay against the real SQLite', 'DESIGN.md §3 C08')
chk('C11', 'model_checking',
    'Partial: the raw-table half of the statement.  The crate (C07) and membership (C08) histories of both generations are executed over the relational sqlite3 model and after every operation an independent reader '
    '(checks/raw_reader.py: plain SELECTs over the modelled rows, nothing of the library\'s accessors) judges the stored tables: 2.x parent links resolve and are acyclic, the sibling chain of every parent and the entity chain '
    'of every list are single acyclic lists covering all rows, entities name existing lists and tracks, a track\'s origin ids name the track and the database uuid, the file-name column agrees with the path; 1.x the path strings, '
    'the parent list and the flattened hierarchy describe the same forest (exactly one parent row per crate, hierarchy == transitive closure, path == titles from the root) and the track lists name existing crates and tracks.',
    'NOT covered (stated, they are facts about SQLite or belong to other checks): PRAGMA integrity_check / foreign_key_check, verify() (see C17), blob decodability (C03), extension / file-type columns (C06). '
    'Trusted: as C07; the reader judges the model\'s rows - that the real SQLite holds the same rows is what the differential validation and the native replays of C07/C08 establish. Reader counterexamples cannot be replayed '
    'natively (the native twin has no reader).',
    'bounded symbolic execution of LLVM IR (lsx, z3) over a relational sqlite3 model + independent reader of the modelled tables', 'DESIGN.md §3 C11')
chk('C17', 'model_checking',
    'The real verify() of each schema version (schema/schema_*.cpp, schema_validate_utils.hpp, sqlite_modern_cpp row extraction, std::set ordering) is executed symbolically over a catalog model of the sqlite3 API. '
    'The catalog answered (sqlite_master by type, PRAGMA table_info / index_list / index_info) is the one the REAL SQLite reports for a library that the library built from the working tree has just created in that version, '
    'with at most one structural deviation applied consistently to every query it touches: missing / extra / renamed table, view, column or index; column type, nullability, default, key membership. The replacement value '
    '(name, type, default text, flags) is symbolic, the deviation is chosen lazily at the first query it affects (one fork per deviation, ~500 per schema). Asserted: no replacement value different from the original lets verify() '
    'return (V1); the undeviated catalog is accepted (V2); every enumerated deviation changes some query verify() actually issues (V3).',
    'Trusted: clang lowering, lsx incl. its model of libstdc++\'s red-black-tree primitives, lsx/models_sqlite.py, checks/catalog.py (how one deviation shows in each catalog query), the system SQLite for the ground-truth catalog, z3. '
    'Outside: several deviations at once; type changes of key columns and key-membership changes that add or remove an automatic index; index attributes; columns of views; triggers; reference dumps from Engine itself (C12); schema 3.0.0. '
    'Counterexamples are solver models over the catalog model and are not replayed against a hand-mutated SQLite file.',
    'symbolic execution of LLVM IR (lsx, z3) over a catalog model of the sqlite3 API seeded from the real SQLite', 'DESIGN.md §3 C17')
PENDING = []

def main():
    for p in PENDING:
        if p not in CHECKS and not any(x['property_id'] == p for x in NA):
            na(p, 'not claimed at this commit: its solver-based check is not built/green yet (build order in DESIGN.md §8)')
    m = {'version': 1,
         'setup_cmd': 'python3-vt -c "import z3; print(z3.get_version_string())" && clang++-14 --version | head -1 && mkdir -p build evidence',
         'hooks': {'guard': 'XSCO_LIBDJINTEROP_VERIF', 'enable': 'no source hooks are used: harness translation units #include the real .cpp files from /repo (unity include) and are compiled to LLVM IR on every run',
                   'baseline_off_cmd': 'cmake -S /repo -G Ninja -B /repo/_build -DCMAKE_BUILD_TYPE=RelWithDebInfo >/dev/null && cmake --build /repo/_build -j16 && ctest --test-dir /repo/_build -j8 --timeout 900',
                   'source_commits': [], 'add_only': True},
         'engines': [{'name': 'lsx', 'path': 'lsx/', 'serves_properties': sorted(CHECKS), 'kind_free_text': 'path-wise symbolic executor for clang-14 LLVM IR (python + z3), environment models at the sqlite3 / zlib / C++ runtime boundary'}],
         'checks': [CHECKS[k] for k in sorted(CHECKS)],
         'not_applicable': NA,
         'notes': 'All checks are solver-based (symbolic execution of the real code compiled to LLVM IR; z3 decides every branch/assertion). Exit 0 = held within the stated bounds, 1 = reproduced unlisted violation, 2 = machinery could not decide (never reported as success).'}
    json.dump(m, open(os.path.join(V, 'MANIFEST.json'), 'w'), indent=1)
if __name__ == '__main__': main()
